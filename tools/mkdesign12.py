#!/venv/bin/python
"""Regenerates the table of DESIGN.md section 12 (findings and dispositions) from known_findings.json."""
import json, os, re
HERE = os.path.dirname(os.path.dirname(os.path.abspath(__file__)))
d = json.load(open(os.path.join(HERE, 'known_findings.json')))
rows = []
for f in sorted(d['findings'], key=lambda f: (f['property'], f['key'])):
    what = f['what']
    if f['status'] == 'fixed':
        what = re.sub(r'^fixed: property=\S+ \S+ ', '', what)
        rows.append('| %s | `%s` | fixed | `%s` | %s |' % (f['property'], f['key'], f['commit'], what.replace('|', '/')))
    else:
        rows.append('| %s | `%s` | **open** | – | %s |' % (f['property'], f['key'], what.replace('|', '/')))
nf = sum(1 for f in d['findings'] if f['status'] == 'fixed'); no = len(d['findings']) - nf
p = os.path.join(HERE, 'DESIGN.md'); s = open(p).read()
a = s.index('| prop | key (mechanism) | status | /repo commit | what failed |')
b = s.index('\n\n', a)
s = s[:a] + '| prop | key (mechanism) | status | /repo commit | what failed |\n|---|---|---|---|---|\n' + '\n'.join(rows) + s[b:]
s = re.sub(r'\d+ fixes, \d+ open findings\.', '%d fixes, %d open findings.' % (nf, no), s)
open(p, 'w').write(s)
print(nf, 'fixed', no, 'open')
