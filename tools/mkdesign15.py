#!/venv/bin/python
"""Rewrites section 15 of DESIGN.md (seeded breaking changes: which check catches which) from seeded/*/meta.json and
the first-run records."""
import glob, json, os, re
HERE = os.path.dirname(os.path.dirname(os.path.abspath(__file__)))
first = {}
for f, wave in (('.scratch/results_round1.jsonl', ''), ('.scratch/results_w2_first.jsonl', 'w2'), ('.scratch/results_w3_first.jsonl', 'w3'), ('.scratch/results_w4_first.jsonl', 'w4'), ('.scratch/results_w5_first.jsonl', 'w5'), ('.scratch/results_w6_first.jsonl', 'w6'), ('.scratch/results_w7_first.jsonl', 'w7'), ('.scratch/results_w8_first.jsonl', 'w8'), ('.scratch/results_w9_first.jsonl', 'w9')):
    p = os.path.join(HERE, f)
    if os.path.exists(p):
        for l in open(p):
            r = json.loads(l)
            if r.get('error'): continue
            x = os.path.basename(r['patch'])[0]
            c = r.get('checks', {}).get(r['pid'])
            if c: first['%s-%s%s' % (r['pid'], wave, x)] = {0: 'missed', 1: 'caught', 3: 'inconclusive'}.get(c['rc'], str(c['rc']))
FIX = json.load(open(os.path.join(HERE, 'tools', 'seeded_notes.json')))
first.update(FIX.get('_first', {}))
W = {w: [sum(1 for k, v in first.items() if ('-' + w) in k and v.startswith('caught')), sum(1 for k in first if ('-' + w) in k)] for w in ('w3', 'w4', 'w5', 'w6', 'w7', 'w8', 'w9')}
rows = []
for mp in sorted(glob.glob(os.path.join(HERE, 'seeded', '*', 'meta.json'))):
    m = json.load(open(mp))
    rd = os.path.join(os.path.dirname(mp), 'README.md')
    title = ''
    if os.path.exists(rd):
        for line in open(rd):
            t = line.strip().lstrip('#').strip()
            if t and not t.lower().startswith(('change', 'a.md', 'b.md', 'c.md')) or (t and len(t) > 25):
                title = t; break
    title = re.sub(r'\s+', ' ', title)[:150].replace('|', '/')
    mons = sorted({w.split(':', 1)[1] for c in m['checks_run_on_patched_tree'].values() for w in c['witness_monitors']})[:3]
    fr = first.get(m['id'], 'caught')
    rows.append('| %s | %s | %s | %s | %s | %s |' % (m['id'], title, fr, ','.join(m['caught_by']) or '**none**', '; '.join(mons), FIX.get(m['id'], '')))
txt = '''## 15. Seeded breaking changes: which check catches which

%d changes written by independent sub-agents (each given only the text of one property and a scratch worktree of /repo; nothing
from /verif), every one confirmed by `tools/seedtest.py` in a scratch worktree: the patch applies to /repo's HEAD, the 120 existing
tests still pass with it, the author's demonstration exits 0 without and non-zero with it.  Kept under `seeded/<id>/` (patch.diff,
demo.py, the author's README.md, meta.json).  "first run" is the verdict of the property's own quick check as it was when the change
arrived (before anything was strengthened in response); "now" lists the checks that report a VIOLATION on the patched tree at the
final state.  `w2`..`w9` = later waves (w3 to w9 were run *held out*: the checks were frozen and committed before the changes were
written), whose authors were told what the earlier waves had tried and asked for something different.

| id | what the change does (author's words, truncated) | first run | now caught by | witness monitors | what was added after a miss |
|---|---|---|---|---|---|
%s

First-run misses and what they taught (details in section 14): state shared *between* objects or *across* cases (class-level caches
keyed by too little, mutable defaults, hoisted templates) -> sibling workloads, S3 re-validation, shard-prefix replay, pristine
C10 oracle; reuse of one object after an error or after another option -> after-error / after-refusal histories in C02, C03, C04,
C14, C18; argument and result aliasing -> C07 argument-unchanged, C08 result aliasing; boundary of a gate only reachable by search ->
C19 gate search; state kept across `load()`/`dim=` on one object -> C07 reload, C16 histories.

Held-out measurements (checks frozen and committed before the changes were written): wave 3 first run %d/%d caught, wave 4 first
run %d/%d caught.  Wave 4 authors were given the nine earlier descriptions per property and told to avoid them, so its misses are
narrow by construction; what they taught: a public attribute changed between calls (DES `K`, AES `Nr`, whitebox `KT`), other
objects used *between* two halves of one operation (enc .. dec, piece .. piece), argument forms the workloads had not used (Bits
values wider than the ring, iterables as positions, overhanging slices, short salts, a caller-owned bytearray key, round counts
>= 256) and the class L=0 with a non-empty buffer, which the first workloads excluded although the properties quantify over it
(that omission also hid a genuine defect, see section 12).  A miss is answered by widening the *workload class* (all ciphers,
all hashes), not by targeting the seeded site.  Wave 5 (authors given all twelve earlier descriptions per property, and asked for
unusual-but-legal argument types, caller-mutated buffers, swapped call orders): first run %d/%d caught.  Its misses were about how a
program holds the library's objects and its own buffers (section 14, last part); two of the workload classes added in response
exposed genuine defects of the pinned tree (section 12: UBI and SHAKE grew a caller's bytearray in place).  One wave-5 change
(C04, Keccak duplex state updated in place, visible only through `copy.copy()` of an object in mid-session) was **declined**: it does
not break the property as stated, and it is not kept under `seeded/`.  Wave 6 (two changes per property, fifteen earlier descriptions
to avoid): first run %d/%d caught; the misses added: key / polynomial / nonce objects the caller changes *before the first use* or
refills for a second object, re-keying histories, decryption as a continuous stream, configured streams, `(buffer, bitlen)` pieces,
negative-start overhanging slices, copies and pickles of live objects, and the rule that a `bytearray` is a byte string (an error
for it is judged, not excused as a refusal).  One wave-6 change (C13: HMAC over a `memoryview` with items wider than a byte) was
**declined**: the property's messages are byte strings, and the pinned library's own hash objects already treat such views by item
count.  Wave 7 (authors steered away from API misuse and towards numeric coincidences and rarely taken branches inside the
algorithms): first run %d/%d caught; the misses added all-ones / special-word data in the quick tiers, brand-new objects used
through `update()` at once, sponge calls inside a duplex session, refused calls before the ordinary one (MD6, HMAC's hash object),
shorter sequence values in vector assignment, TDEA bundles with equal sub-keys under the modes, copies of cipher objects,
caller-assembled CRC tables, and *workers with a past*: odd-numbered workers first use other parts of crysp, unusual
configurations first (`core.process_past`), so that state one module leaves behind for another (an IV table cached under the
digest length only) meets the property's workload in both orders.  Wave 8 (authors pointed at the clauses of each property that
earlier waves had touched least): first run %d/%d caught (one further change made an existing randomized test fail and was not
kept); the misses added refused pieces inside a stream, non-bytes AES blocks, a cold-interpreter probe of the module-level
component functions, the customary Skein output sizes, `(stale buffer, bitlen=0)` pieces, totals of exactly 64 KiB, the CRC-32
polynomial in wider registers, long rewinds, operator results as new vectors, equal couples, and MD6 in its default and
sequential configurations inside C10.  After wave 8 the checks caught every change kept so far.  Wave 9 (a last, small
held-out wave written when the checks had long been frozen at commit 000ebea; authors given the property text only and a
ten-minute budget; the second half of the authors were told to stay away from class-level caches, mutable defaults and skipped
resets): first run %d/%d caught.  What the twenty changes were: state cached at class level under too small a key (Skein initial
state without the nonce, RC4 permutation handed out uncopied, a counter's parsed start value surviving `setup()`, a carry leaking
into the CTR nonce when the counter half wraps), a mutable default argument poisoning later `exactsum` queries, a reset skipped
after a refused TLSH input, and numeric edges inside one call (SHA padding at 447 mod 512 bits -- chosen independently by two
authors --, Keccak rates below a byte with two or more blocks, `-Bits(0,w)` unmasked, `short - long` vectors, an empty final piece
after aligned updates, zero words in big-endian `unpack`, TDEA with K2 == K3, `rol`/`ror` on 24-bit words, HMAC keys ending in NUL
bytes, the empty string under a generic CRC with a final XOR, white-box DES under a weak key, BLAKE with `(buffer, bitlen=0)`).
The one miss: MD6's 80-round minimum for keyed hashing decided by `any(key)` instead of by the key's length -- wrong only for a
non-empty all-zero key at d < 160 with default rounds; C17 drew every key at random.  Answered by a workload class, not the site:
keys whose bytes follow a pattern (all zero, all ones, a single bit) at default and fixed round counts; C17's quick (seeds 0, 1) and
thorough (seed 0) tiers were re-run on the unchanged tree afterwards and held.  %d of the %d kept changes are caught at the final
state.
''' % (len(rows), '\n'.join(rows), W['w3'][0], W['w3'][1], W['w4'][0], W['w4'][1], W['w5'][0] , W['w5'][1] - 1, W['w6'][0], W['w6'][1] - 1, W['w7'][0], W['w7'][1], W['w8'][0] - 1, W['w8'][1] - 1, W['w9'][0], W['w9'][1], sum(1 for r in rows if '**none**' not in r), len(rows))
p = os.path.join(HERE, 'DESIGN.md')
s = open(p).read()
if '## 15. Seeded' in s:
    s = s[:s.index('## 15. Seeded')].rstrip('\n') + '\n\n' + txt
else:
    s = s.rstrip('\n') + '\n\n---------------------------------------------------------------------------------------------------\n\n' + txt
open(p, 'w').write(s)
print(len(rows), 'rows')
os.system(os.path.join(HERE, 'tools', 'mkdesign16.py'))     # section 16 follows section 15 and is regenerated with it
