#!/bin/sh
# tools/benignall.sh <outfile> [ids...] : every behaviour-preserving refactoring kept under benign/ against the checks whose
# files it touches (plus C10), in scratch worktrees of /repo; one JSON line each.  No alarm is expected anywhere.
cd "$(dirname "$0")/.."
of=$1; shift
ids=${@:-$(ls benign | grep '^C.*-b2'; ls benign | grep '^C.*-b1')}          # the newer wave first
for n in $ids; do
  tools/benigntest.py benign/$n/patch.diff --checks auto $BENIGN_OPTS >> $of 2>>$of.err
done
