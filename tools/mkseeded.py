#!/venv/bin/python
"""tools/mkseeded.py <results.jsonl> : file confirmed seeded changes under /verif/seeded/<PID>-<X>/
(patch.diff, demo.py, README.md from the author of the change, meta.json with what was run and which check caught it)."""
import json, os, shutil, sys
HERE = os.path.dirname(os.path.dirname(os.path.abspath(__file__)))
out = os.path.join(HERE, 'seeded')
rows = [json.loads(l) for l in open(sys.argv[1])]
wave = sys.argv[2] if len(sys.argv) > 2 else ""        # e.g. "w2" -> ids like C07-w2A
index = []
for r in rows:
    if r.get('error'):
        continue
    pid = r['pid']; x = os.path.basename(r['patch'])[0]
    src = os.path.dirname(r['patch'])
    confirmed = bool(r.get('applies') and r.get('tests_pass') and r.get('demo_clean_rc') == 0 and r.get('demo_patched_rc') not in (0, None))
    name = '%s-%s%s' % (pid, wave, x)
    if not confirmed:
        index.append({'id': name, 'kept': False, 'why': 'not confirmed: applies=%s tests_pass=%s demo(clean,patched)=(%s,%s)' % (r.get('applies'), r.get('tests_pass'), r.get('demo_clean_rc'), r.get('demo_patched_rc'))})
        continue
    d = os.path.join(out, name)
    os.makedirs(d, exist_ok=True)
    shutil.copy(r['patch'], os.path.join(d, 'patch.diff'))
    shutil.copy(os.path.join(src, x + '_demo.py'), os.path.join(d, 'demo.py'))
    md = os.path.join(src, x + '.md')
    if os.path.exists(md):
        shutil.copy(md, os.path.join(d, 'README.md'))
    first = ''
    if os.path.exists(md):
        for line in open(md):
            if line.strip() and not line.startswith('#'):
                first = line.strip()[:400]; break
    checks = r.get('checks', {})
    caught = sorted(c for c, v in checks.items() if v['rc'] == 1)
    meta = {
        'id': name, 'breaks_property': pid,
        'summary': first,
        'needs_to_manifest': 'see README.md (written by the independent author of the change)',
        'confirmed': {'patch_applies_to_repo_HEAD': True, 'existing_tests_with_patch': r.get('tests'), 'demo_exit_code_without_patch': r.get('demo_clean_rc'), 'demo_exit_code_with_patch': r.get('demo_patched_rc')},
        'what_i_ran': ['tools/seedtest.py %s seeded/%s/patch.diff seeded/%s/demo.py  (scratch worktree of /repo, VERIF_REPO pointing at it; /repo itself untouched)' % (pid, name, name)],
        'checks_run_on_patched_tree': {c: {'exit': v['rc'], 'seconds': v['s'], 'witness_monitors': v['witness']} for c, v in checks.items()},
        'caught_by': caught,
    }
    json.dump(meta, open(os.path.join(d, 'meta.json'), 'w'), indent=1)
    index.append({'id': name, 'kept': True, 'caught_by': caught, 'summary': first[:160]})
ip = os.path.join(out, 'INDEX.json')
old = []
if os.path.exists(ip):
    old = [e for e in json.load(open(ip)) if e['id'] not in {i['id'] for i in index}]
index = sorted(old + index, key=lambda e: e['id'])
json.dump(index, open(ip, 'w'), indent=1)
print(len([i for i in index if i['kept']]), 'kept;', len([i for i in index if i.get('kept') and not i['caught_by']]), 'not caught by the runs recorded')
