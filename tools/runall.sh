#!/bin/sh
# tools/runall.sh <tier> <seed> [ids...] : run checks sequentially, one summary line each
tier=${1:-quick}; seed=${2:-0}; shift 2 2>/dev/null
ids=${@:-C01 C02 C03 C04 C05 C06 C07 C08 C09 C10 C11 C12 C13 C14 C15 C16 C17 C18 C19 C20}
cd "$(dirname "$0")/.."
for id in $ids; do
  s=$(date +%s)
  out=$(./check $id --tier $tier --seed $seed 2>&1); rc=$?
  e=$(date +%s)
  echo "$id rc=$rc $((e-s))s $(echo "$out" | grep -c KNOWN-FINDING) known | $(echo "$out" | grep -E 'VIOLATION|INCONCLUSIVE|HELD' | head -3 | tr '\n' ' ')"
done
