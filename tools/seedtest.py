#!/venv/bin/python
"""tools/seedtest.py <PID> <patch> [<demo.py>] [--checks C01,C05] [--tier quick]
Confirms a seeded change in a scratch worktree of /repo (never in /repo itself):
  1. the patch applies to /repo's HEAD, 2. the 120 tests still pass with it, 3. the demo passes without and fails with it,
  4. runs the named checks (default: the property's own) against the patched tree with VERIF_REPO, evidence redirected.
Prints one JSON line with the outcome."""
import argparse, json, os, shutil, subprocess, sys, tempfile, time
HERE = os.path.dirname(os.path.dirname(os.path.abspath(__file__)))
ap = argparse.ArgumentParser()
ap.add_argument('pid'); ap.add_argument('patch'); ap.add_argument('demo', nargs='?')
ap.add_argument('--checks'); ap.add_argument('--tier', default='quick'); ap.add_argument('--seed', default='0')
a = ap.parse_args()
wt = tempfile.mkdtemp(prefix='seedwt-')
os.rmdir(wt)
out = tempfile.mkdtemp(prefix='seedout-')
res = {'pid': a.pid, 'patch': a.patch}
def run(cmd, **kw):
    return subprocess.run(cmd, capture_output=True, text=True, **kw)
try:
    run(['git', '-C', '/repo', 'worktree', 'add', '-q', '--detach', wt, 'HEAD'])
    env = dict(os.environ, PYTHONPATH=wt, PYTHONDONTWRITEBYTECODE='1')
    env.pop('BDCHT_CRYSP_VERIF', None)
    if a.demo:
        r = run(['/venv/bin/python', '-B', a.demo], env=env, cwd=wt, timeout=1800)
        res['demo_clean_rc'] = r.returncode
    r = run(['git', '-C', wt, 'apply', os.path.abspath(a.patch)])
    res['applies'] = r.returncode == 0
    if not res['applies']:
        res['apply_err'] = r.stderr[-300:]
    else:
        r = run(['/venv/bin/python', '-m', 'pytest', '-q', '-p', 'no:cacheprovider', 'tests'], env=env, cwd=wt, timeout=1800)
        res['tests'] = r.stdout.strip().splitlines()[-1] if r.stdout.strip() else r.stderr[-200:]
        res['tests_pass'] = r.returncode == 0
        if a.demo:
            r = run(['/venv/bin/python', '-B', a.demo], env=env, cwd=wt, timeout=1800)
            res['demo_patched_rc'] = r.returncode
        res['checks'] = {}
        for c in (a.checks.split(',') if a.checks else [a.pid]):
            t0 = time.time()
            r = run([os.path.join(HERE, 'check'), c, '--tier', a.tier, '--seed', a.seed], env=dict(os.environ, VERIF_REPO=wt, VERIF_OUT=out), cwd=HERE, timeout=4 * 3600)
            keys = [l.split('[')[1].split(']')[0] + ':' + l.split('monitor=')[1].split(' ')[0] for l in r.stdout.splitlines() if l.startswith('  witness [')]
            res['checks'][c] = {'rc': r.returncode, 's': round(time.time() - t0), 'witness': keys[:6],
                                'line': [l for l in r.stdout.splitlines() if l.startswith(('VIOLATION', 'INCONCLUSIVE', 'HELD'))][:1]}
finally:
    run(['git', '-C', '/repo', 'worktree', 'remove', '--force', wt])
    shutil.rmtree(out, ignore_errors=True)
print(json.dumps(res))
