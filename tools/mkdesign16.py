#!/venv/bin/python
"""Rewrites section 16 of DESIGN.md (as-built summary per property) from the property modules."""
import importlib, json, os, sys
HERE = os.path.dirname(os.path.dirname(os.path.abspath(__file__)))
sys.path[:0] = ['/repo', HERE, os.path.join(HERE, '.deps')]
os.environ['BDCHT_CRYSP_VERIF'] = '1'
out = ['## 16. As built: monitors and workloads per property (generated from `vmon/props/cNN.py`)', '',
       'Section 5 is the plan; this section is what the code does at the final commit.  "deciding monitors" are the names in the',
       'module\'s `REQUIRED` list: each must record at least one evaluation or the run is INCONCLUSIVE.  Every check additionally',
       'runs S3 (shared-state probe + re-validation), S4 (anchor coverage) and, in its sanitizer shards, S1 (payload invariants).', '']
for i in range(1, 21):
    pid = 'C%02d' % i
    m = importlib.import_module('vmon.props.' + pid.lower())
    san = getattr(m, 'SAN', {})
    out.append('### %s' % pid)
    out.append('* workload / class rule: %s' % m.RULE)
    from vmon.histories import HIST
    out.append('* object histories driven: %s' % HIST[pid])
    out.append('* deciding monitors: %s' % ', '.join('`%s`' % x for x in getattr(m, 'REQUIRED', [])))
    out.append('* trusted: %s' % '; '.join(getattr(m, 'ASSUMPTIONS', [])))
    out.append('* sanitizer shards (count, 1/stride sample): quick %s, thorough %s%s' % (san.get('quick'), san.get('thorough'),
               '; S7 (repository suite under S1/S3) in the thorough tier' if getattr(m, 'S7', None) else ''))
    out.append('')
txt = '\n'.join(out)
p = os.path.join(HERE, 'DESIGN.md')
s = open(p).read()
marker = '## 16. As built'
if marker in s:
    s = s[:s.index(marker)].rstrip('\n') + '\n\n' + txt
else:
    s = s.rstrip('\n') + '\n\n---------------------------------------------------------------------------------------------------\n\n' + txt
open(p, 'w').write(s)
print('section 16 written')
