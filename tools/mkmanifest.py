#!/venv/bin/python
"""Regenerates MANIFEST.json from the property modules that exist (vmon/props/cNN.py) and
validates it against the schema.  Properties without a module are listed under not_applicable
with the reason 'check not built yet' so that the manifest is valid at every commit."""
import json, os, re, subprocess, sys
HERE = os.path.dirname(os.path.dirname(os.path.abspath(__file__)))
props = [json.loads(l) for l in open(os.path.join(HERE, 'properties.jsonl'))]
TEXT = json.load(open(os.path.join(HERE, 'tools', 'manifest_text.json')))
hooks_commits = TEXT.get('hook_commits', [])
checks, na = [], []
for p in props:
    pid = p['id']
    if os.path.exists(os.path.join(HERE, 'vmon', 'props', pid.lower() + '.py')) and pid in TEXT['checks']:
        t = TEXT['checks'][pid]
        checks.append({
            'property_id': pid,
            'quick_cmd': './check %s --tier quick' % pid,
            'thorough_cmd': './check %s --tier thorough' % pid,
            'evidence_file': 'evidence/%s.json' % pid,
            'replay_cmd_template': './check %s --replay {path}' % pid,
            'engine': 'vmon',
            'level_claimed': {'category': 'exploration', 'text': t['text'], 'design_ref': 'DESIGN.md section 5 (%s), sections 3-4' % pid},
            'level_note': t['note'],
            'technique': t['technique'],
        })
    else:
        na.append({'property_id': pid, 'reason': TEXT.get('na', {}).get(pid, 'check not built yet (runtime monitor under construction); not claimed at this commit')})
m = {
    'version': 1,
    'setup_cmd': './setup.sh',
    'hooks': {
        'guard': 'BDCHT_CRYSP_VERIF',
        'enable': 'checks run /venv/bin/python with BDCHT_CRYSP_VERIF=1 and PYTHONPATH=/repo (pure Python: nothing to build; the working tree is imported directly)',
        'baseline_off_cmd': 'cd /repo && env -u BDCHT_CRYSP_VERIF /venv/bin/python -m pytest -ra -q -p no:cacheprovider --timeout=900 --continue-on-collection-errors',
        'source_commits': hooks_commits,
        'add_only': True,
    },
    'engines': [{'name': 'vmon', 'path': 'vmon/', 'serves_properties': [c['property_id'] for c in checks],
                 'kind_free_text': 'runtime monitoring: real crysp code executed under reference-model oracles, icontract payload invariants, a global-state sanitizer, sys.monitoring anchor coverage and failpoints; offline checkers over recorded event logs'}],
    'checks': checks,
    'not_applicable': na,
    'notes': TEXT.get('notes', ''),
}
json.dump(m, open(os.path.join(HERE, 'MANIFEST.json'), 'w'), indent=1)
r = subprocess.run(['python3-vt', '-c', 'import json,jsonschema,sys; jsonschema.validate(json.load(open(sys.argv[1])), json.load(open("/root/.vp/MANIFEST.schema.json"))); print("MANIFEST valid:", len(json.load(open(sys.argv[1]))["checks"]), "checks")', os.path.join(HERE, 'MANIFEST.json')])
sys.exit(r.returncode)
