#!/venv/bin/python
"""Regenerates MANIFEST.json from the property modules that exist (vmon/props/cNN.py) and validates it against
the schema.  A property without a module is listed under not_applicable with a reason, so the manifest is valid
and current at every commit.  Level text / trusted base / technique come from the module itself (CLAIM, RULE,
ASSUMPTIONS, TECHNIQUE)."""
import importlib, json, os, subprocess, sys
HERE = os.path.dirname(os.path.dirname(os.path.abspath(__file__)))
sys.path[:0] = ['/repo', HERE, os.path.join(HERE, '.deps')]
os.environ['BDCHT_CRYSP_VERIF'] = '1'
props = [json.loads(l) for l in open(os.path.join(HERE, 'properties.jsonl'))]
TEXT = json.load(open(os.path.join(HERE, 'tools', 'manifest_text.json')))
DEFAULT_TECH = 'runtime monitoring: reference-model oracle over generated executions of the real code, with S1 payload invariants (icontract), S3 global-state sanitizer and S4 anchor coverage (sys.monitoring)'
checks, na = [], []
for p in props:
    pid = p['id']
    path = os.path.join(HERE, 'vmon', 'props', pid.lower() + '.py')
    if os.path.exists(path) and pid not in TEXT.get('na', {}):
        mod = importlib.import_module('vmon.props.' + pid.lower())
        claim = getattr(mod, 'CLAIM', None) or ('Held on the executions observed, never "verified": every monitored execution of the real code in /repo agreed with the '
                 'oracle on all generated classes (' + mod.RULE + '). Exploration is the level runtime monitoring can give for a property quantified over an '
                 'unbounded input/configuration/history space; finite sub-domains that were enumerated completely are listed in the evidence as exhaustive_subdomains.')
        checks.append({
            'property_id': pid,
            'quick_cmd': './check %s --tier quick' % pid,
            'thorough_cmd': './check %s --tier thorough' % pid,
            'evidence_file': 'evidence/%s.json' % pid,
            'replay_cmd_template': './check %s --replay {path}' % pid,
            'engine': 'vmon',
            'level_claimed': {'category': getattr(mod, 'LEVEL', 'exploration'), 'text': claim, 'design_ref': 'DESIGN.md section 5 (%s), sections 3, 4 and 6' % pid},
            'level_note': 'Trusted base: ' + '; '.join(getattr(mod, 'ASSUMPTIONS', [])) + '; CPython 3.12; the vmon harness. Oracles are self-tested at the start of every run (failure => INCONCLUSIVE, exit 3).',
            'technique': getattr(mod, 'TECHNIQUE', DEFAULT_TECH),
        })
    else:
        na.append({'property_id': pid, 'reason': TEXT.get('na', {}).get(pid, 'check not built yet (runtime monitor under construction); not claimed at this commit')})
m = {
    'version': 1,
    'setup_cmd': './setup.sh',
    'hooks': {
        'guard': 'BDCHT_CRYSP_VERIF',
        'enable': 'checks run /venv/bin/python with BDCHT_CRYSP_VERIF=1 and PYTHONPATH=/repo (pure Python: nothing to build; the working tree is imported directly)',
        'baseline_off_cmd': 'cd /repo && env -u BDCHT_CRYSP_VERIF /venv/bin/python -m pytest -ra -q -p no:cacheprovider --timeout=900 --continue-on-collection-errors',
        'source_commits': TEXT.get('hook_commits', []),
        'add_only': True,
    },
    'engines': [{'name': 'vmon', 'path': 'vmon/', 'serves_properties': [c['property_id'] for c in checks],
                 'kind_free_text': 'runtime monitoring: real crysp code executed under reference-model oracles, icontract payload invariants, a global-state sanitizer, sys.monitoring anchor coverage and failpoints; offline checkers over recorded event logs'}],
    'checks': checks,
    'not_applicable': na,
    'notes': TEXT.get('notes', ''),
}
json.dump(m, open(os.path.join(HERE, 'MANIFEST.json'), 'w'), indent=1)
r = subprocess.run(['python3-vt', '-c', 'import json,jsonschema,sys; jsonschema.validate(json.load(open(sys.argv[1])), json.load(open("/root/.vp/MANIFEST.schema.json"))); m=json.load(open(sys.argv[1])); print("MANIFEST valid:", len(m["checks"]), "checks,", len(m["not_applicable"]), "not claimed")', os.path.join(HERE, 'MANIFEST.json')])
sys.exit(r.returncode)
