#!/venv/bin/python
"""tools/kf.py fixed <PID> <commit|HEAD~n> <key> <what>   |   tools/kf.py open <PID> <key> <what>"""
import json, subprocess, sys, os
HERE = os.path.dirname(os.path.dirname(os.path.abspath(__file__)))
p = os.path.join(HERE, 'known_findings.json')
d = json.load(open(p))
kind, pid = sys.argv[1], sys.argv[2]
if kind == 'fixed':
    c = subprocess.run(['git', '-C', '/repo', 'rev-parse', '--short', sys.argv[3]], capture_output=True, text=True).stdout.strip()
    assert c
    d['findings'].append({'property': pid, 'status': 'fixed', 'commit': c, 'key': sys.argv[4], 'what': 'fixed: property=%s %s %s' % (pid, c, sys.argv[5])})
else:
    d['findings'].append({'property': pid, 'status': 'open', 'key': sys.argv[3], 'what': sys.argv[4]})
json.dump(d, open(p, 'w'), indent=1)
print('ok', len(d['findings']))
