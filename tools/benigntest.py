#!/venv/bin/python
"""tools/benigntest.py <patch> [--checks C01,C02|auto] : a behaviour-preserving change must raise NO alarm.
Applies the patch in a scratch worktree of /repo, runs the 120 tests, then the checks whose anchored files the patch touches
(auto) against the patched tree.  Prints one JSON line."""
import argparse, json, os, shutil, subprocess, sys, tempfile, time
HERE = os.path.dirname(os.path.dirname(os.path.abspath(__file__)))
ap = argparse.ArgumentParser()
ap.add_argument('patch'); ap.add_argument('--checks', default='auto'); ap.add_argument('--tier', default='quick'); ap.add_argument('--equiv'); ap.add_argument('--no-c10', action='store_true')
a = ap.parse_args()
props = [json.loads(l) for l in open(os.path.join(HERE, 'properties.jsonl'))]
touched = {l.split('+++ b/')[1].strip() for l in open(a.patch, encoding='latin-1') if l.startswith('+++ b/')}
if a.checks == 'auto':
    checks = [p['id'] for p in props if touched & set(p['anchors']['files'])]
    if 'C10' not in checks and not a.no_c10: checks.append('C10')
else:
    checks = a.checks.split(',')
wt = tempfile.mkdtemp(prefix='benignwt-'); os.rmdir(wt)
out = tempfile.mkdtemp(prefix='benignout-')
res = {'patch': a.patch, 'touched': sorted(touched), 'checks': {}}
run = lambda cmd, **kw: subprocess.run(cmd, capture_output=True, text=True, **kw)
try:
    run(['git', '-C', '/repo', 'worktree', 'add', '-q', '--detach', wt, 'HEAD'])
    r = run(['git', '-C', wt, 'apply', os.path.abspath(a.patch)])
    if r.returncode != 0:
        # written against an older HEAD: fall back to a 3-way merge onto the current one
        r = run(['git', '-C', wt, 'apply', '--3way', os.path.abspath(a.patch)])
        res['threeway'] = True
        if r.returncode == 0:
            run(['git', '-C', wt, 'reset', '-q'])
    res['applies'] = r.returncode == 0
    if res['applies']:
        env = dict(os.environ, PYTHONPATH=wt, PYTHONDONTWRITEBYTECODE='1'); env.pop('BDCHT_CRYSP_VERIF', None)
        r = run(['/venv/bin/python', '-m', 'pytest', '-q', '-p', 'no:cacheprovider', 'tests'], env=env, cwd=wt, timeout=1800)
        res['tests'] = r.stdout.strip().splitlines()[-1] if r.stdout.strip() else ''
        if a.equiv:
            r = run(['/venv/bin/python', '-B', a.equiv], env=env, cwd=wt, timeout=3600)
            res['equiv_rc'] = r.returncode
        for c in checks:
            t0 = time.time()
            r = run([os.path.join(HERE, 'check'), c, '--tier', a.tier], env=dict(os.environ, VERIF_REPO=wt, VERIF_OUT=out), cwd=HERE, timeout=4 * 3600)
            lines = [l for l in r.stdout.splitlines() if l.startswith(('VIOLATION', 'INCONCLUSIVE', '  witness'))][:4]
            res['checks'][c] = {'rc': r.returncode, 's': round(time.time() - t0), 'lines': lines}
finally:
    run(['git', '-C', '/repo', 'worktree', 'remove', '--force', wt])
    shutil.rmtree(out, ignore_errors=True)
print(json.dumps(res))
