#!/bin/sh
# offline setup after a fresh restore: third-party monitor dependency (icontract) into .deps
set -e
cd "$(dirname "$0")"
if [ ! -d .deps/icontract ]; then
  PIP_NO_INDEX=1 /venv/bin/pip install -q --no-index --find-links /opt/veriftools/wheels --target .deps icontract
fi
PYTHONPATH=/repo:.:.deps /venv/bin/python -B -c "import icontract, crysp, vmon.core, vmon.sanitize; print('vmon setup ok: icontract', icontract.__version__)"
