"""./check <ID> [--tier quick|thorough] [--seed N] [--replay FILE] [--jobs N]

Parent process: starts the worker shards on /repo's current working tree, merges what the
monitors observed, applies the known-findings list, replays witnesses in a fresh process,
writes evidence/<ID>.json and prints the verdict lines.

exit 0 held on everything explored (KNOWN-FINDING lines allowed)
exit 1 VIOLATION property=<ID> replay=<path>
exit 3 INCONCLUSIVE property=<ID> reason=<...>
"""
import argparse, collections, hashlib, importlib, json, os, shutil, subprocess, sys, tempfile, time

HERE = os.path.dirname(os.path.dirname(os.path.abspath(__file__)))     # the /verif checkout
REPO = os.environ.get('VERIF_REPO', '/repo')
DEPS = os.path.join(HERE, '.deps')
OUT = os.environ.get('VERIF_OUT') or HERE            # evidence/ and replays/ go here (tools/seedtest.py redirects them)
PY = '/venv/bin/python'
GUARD = 'BDCHT_CRYSP_VERIF'

def ensure_deps():
    if os.path.isdir(os.path.join(DEPS, 'icontract')):
        return
    os.makedirs(DEPS, exist_ok=True)
    subprocess.run([PY, '-m', 'pip', 'install', '-q', '--no-index', '--find-links', '/opt/veriftools/wheels',
                    '--target', DEPS, 'icontract'], check=True, stdout=subprocess.DEVNULL,
                   env=dict(os.environ, PIP_NO_INDEX='1', PIP_DISABLE_PIP_VERSION_CHECK='1'))

def child_env():
    e = dict(os.environ)
    e[GUARD] = '1'
    e['PYTHONPATH'] = os.pathsep.join([REPO, HERE, DEPS])
    e['PYTHONDONTWRITEBYTECODE'] = '1'
    e['PYTHONHASHSEED'] = '0'
    return e

def repo_ident():
    def g(*a):
        try:
            return subprocess.run(['git', '-C', REPO] + list(a), capture_output=True, text=True, timeout=30).stdout
        except Exception:
            return ''
    head = g('rev-parse', 'HEAD').strip()
    diff = g('diff', 'HEAD')
    return head, hashlib.sha256(diff.encode()).hexdigest()[:16] if diff else 'clean'

def load_known():
    p = os.path.join(HERE, 'known_findings.json')
    try:
        return json.load(open(p)).get('findings', [])
    except FileNotFoundError:
        return []

def main():
    ap = argparse.ArgumentParser()
    ap.add_argument('pid')
    ap.add_argument('--tier', default=os.environ.get('VERIF_TIER') or 'quick', choices=['quick', 'thorough'])
    ap.add_argument('--seed', type=int, default=int(os.environ.get('VERIF_SEED') or 0))
    ap.add_argument('--replay')
    ap.add_argument('--jobs', type=int, default=int(os.environ.get('VERIF_JOBS') or 16))
    ap.add_argument('--keep', action='store_true', help='keep the per-run temp directory')
    a = ap.parse_args()
    pid = a.pid.upper()
    ensure_deps()
    env = child_env()
    if a.replay:
        r = subprocess.run([PY, '-B', '-m', 'vmon.replay', pid, os.path.abspath(a.replay)], env=env, cwd=HERE)
        return r.returncode
    # the parent needs the property module only for its configuration
    sys.path[:0] = [REPO, HERE, DEPS]
    os.environ[GUARD] = '1'
    mod = importlib.import_module('vmon.props.' + pid.lower())
    t0 = time.time()
    nsan, stride = getattr(mod, 'SAN', {}).get(a.tier, (0, 1))
    nsh = max(1, min(a.jobs - nsan, getattr(mod, 'NSHARDS', {}).get(a.tier, 14) if isinstance(getattr(mod, 'NSHARDS', None), dict) else getattr(mod, 'NSHARDS', 14)))
    wall_limit = getattr(mod, 'WALL_S', {'quick': 1500, 'thorough': 4 * 3600})[a.tier]
    tmp = tempfile.mkdtemp(prefix='vmon-%s-' % pid)
    procs = []
    try:
        if hasattr(mod, 'prepare'):
            # oracle values that must come from pristine processes (see C10)
            env['VMON_PREP'] = mod.prepare(tmp, env, PY, HERE)
        for s in range(nsh):
            out = os.path.join(tmp, 'w%d.json' % s)
            p = subprocess.Popen([PY, '-B', '-m', 'vmon.shard', pid, a.tier, str(a.seed), str(s), str(nsh), '0', '1', out],
                                 env=env, cwd=HERE, stdout=subprocess.DEVNULL, stderr=open(out + '.err', 'w'))
            procs.append((p, out, 'w%d' % s))
        for s in range(nsan):
            out = os.path.join(tmp, 's%d.json' % s)
            p = subprocess.Popen([PY, '-B', '-m', 'vmon.shard', pid, a.tier, str(a.seed), str(s), str(nsan), '1', str(stride), out],
                                 env=env, cwd=HERE, stdout=subprocess.DEVNULL, stderr=open(out + '.err', 'w'))
            procs.append((p, out, 's%d' % s))
        inconclusive = []
        results = []
        s7 = None
        if a.tier in getattr(mod, 'S7', ()):
            s7out = os.path.join(tmp, 's7.json')
            s7 = (subprocess.Popen([PY, '-B', '-m', 'pytest', '-q', '-p', 'no:cacheprovider', '-p', 'vmon.pytest_plugin', os.path.join(REPO, 'tests')],
                                   env=dict(env, VMON_S7_OUT=s7out), cwd=REPO, stdout=subprocess.DEVNULL, stderr=subprocess.DEVNULL), s7out)
        deadline = t0 + wall_limit
        for p, out, name in procs:
            try:
                p.wait(timeout=max(1, deadline - time.time()))
            except subprocess.TimeoutExpired:
                p.kill()
                inconclusive.append('shard %s hit the wall-clock watchdog (%ds)' % (name, wall_limit))
                continue
            if not os.path.exists(out):
                err = open(out + '.err').read()[-600:]
                inconclusive.append('shard %s died without a result: %s' % (name, err.strip().replace('\n', ' | ')))
                continue
            results.append(json.load(open(out)))
        s7res = None
        if s7:
            try:
                s7[0].wait(timeout=max(1, deadline - time.time()))
                s7res = json.load(open(s7[1]))
            except Exception as e:
                s7[0].kill()
                inconclusive.append('S7 (repository suite under the sanitizer layer) produced no result: %s' % type(e).__name__)
        verdict = finish(pid, a, mod, results, inconclusive, t0, env, s7res)
    finally:
        for p, _, _ in procs:
            if p.poll() is None:
                p.kill()
        if not a.keep:
            shutil.rmtree(tmp, ignore_errors=True)
    return verdict

def pick_samples(samples, n=10):
    """a spread of the recorded case descriptors, distinct kinds first"""
    out, kinds = [], set()
    for c in samples:
        if c.get('k') not in kinds:
            kinds.add(c.get('k')); out.append(c)
    for c in samples:
        if len(out) >= n:
            break
        if c not in out:
            out.append(c)
    return out[:max(n, len(kinds))][:16]

def finish(pid, a, mod, results, inconclusive, t0, env, s7res=None):
    mon = collections.Counter(); monfail = collections.Counter()
    classes = set(); states = collections.defaultdict(set); statecount = collections.Counter()
    fails = []; failkeys = collections.Counter(); samples = []
    exhaustive = collections.Counter(); notes = collections.Counter(); anchors = collections.defaultdict(set)
    anchor_lines = {}; cases = 0; sancases = 0; s1 = collections.Counter(); selftest = None; crysp_path = None
    for r in results:
        if r.get('status') == 'selftest-failed':
            inconclusive.append('oracle self-test failed: %s' % r.get('selftest'))
            continue
        crysp_path = r.get('crysp_path')
        if 'selftest' in r:
            selftest = r['selftest']
        mon.update(r['mon']); monfail.update(r['monfail']); classes.update(r['classes'])
        for k, v in r.get('state_sets', {}).items():
            states[k].update(v)
        for k, v in r.get('states', {}).items():
            statecount[k] = max(statecount[k], v)
        fails.extend(r['fails']); failkeys.update(r['failkeys'])
        samples.extend(r['samples'])
        if not r.get('san'):
            exhaustive.update(r.get('exhaustive', {})); notes.update(r.get('notes', {}))
        for k, v in r.get('anchors', {}).items():
            anchors[k].update(v)
        anchor_lines.update(r.get('anchor_lines', {}))
        if r.get('san'):
            sancases += r['cases']
        else:
            cases += r['cases']
        s1.update(r.get('s1', {}))
    if s7res is not None:
        # S7: the repository's own suite under S1/S3 is one more workload; a firing contract is a witness
        mon['S7-suite-under-sanitizers'] += s7res['tests']
        mon['S1-payload-invariant'] += sum(s7res['s1_evaluations'].values())
        s1.update(s7res['s1_evaluations'])
        for what in s7res['s1_failures'][:5]:
            fails.append({'case': {'k': 'S7-repo-suite'}, 'fail': {'monitor': 'S1-payload-invariant', 'got': what, 'want': None, 'key': None}})
            failkeys['?S1-payload-invariant'] += 1
        for chg in s7res['s3_changes'][:5]:
            fails.append({'case': {'k': 'S7-repo-suite', 'test': chg['test']}, 'fail': {'monitor': 'S3-global-state', 'got': chg['changed'], 'want': [], 'key': None}})
            failkeys['?S3-global-state'] += 1
        if s7res['tests'] == 0:
            inconclusive.append('S7 ran zero tests')
    head, diffid = repo_ident()
    # -- inconclusive conditions -------------------------------------------------------
    for m in getattr(mod, 'REQUIRED', []):
        if mon.get(m, 0) == 0:
            inconclusive.append('monitor %s recorded zero evaluations' % m)
    # anchor coverage: the workload must have reached every anchored *file*; a single anchored function that is not
    # executed (renamed or bypassed by a refactoring) is reported in the evidence but does not decide anything
    filex = collections.Counter()
    for r in results:
        for f, n in r.get('files_executed', {}).items():
            filex[f] = max(filex[f], n)
    for f in sorted({k.split(':')[0] for k in anchors} if results else []):
        if filex.get(f, 0) == 0:
            inconclusive.append('the workload executed no line of the anchored file %s' % f)
    anchors_idle = sorted(k for k, n in anchors.items() if len(n) == 0)
    if crysp_path and os.path.realpath(crysp_path) != os.path.realpath(os.path.join(REPO, 'crysp')):
        inconclusive.append('crysp imported from %s, not from %s' % (crysp_path, REPO))
    # -- known findings -------------------------------------------------------------------
    known = [k for k in load_known() if k.get('property') == pid]
    open_keys = {k['key']: k for k in known if k.get('status') == 'open'}
    lines = []
    seen_known = set()
    unknown = collections.OrderedDict()
    for w in fails:
        key = w['fail'].get('key')
        if key in open_keys:
            seen_known.add(key)
            continue
        unknown.setdefault(key or ('?' + w['fail']['monitor']), []).append(w)
    for key in sorted(seen_known):
        lines.append('KNOWN-FINDING: property=%s %s [%s] (%d witnesses this run)' % (pid, open_keys[key]['what'], key, failkeys.get(key, 0)))
    for key in sorted(set(open_keys) - seen_known):
        lines.append('NOTE: property=%s open known finding [%s] was not observed in this run' % (pid, key))
    # -- witnesses: write replay files, replay the first of each key in a fresh process ------
    violations = []
    rdir = os.path.join(OUT, 'replays', pid)
    if unknown:
        os.makedirs(rdir, exist_ok=True)
    for n, (key, ws) in enumerate(unknown.items()):
        path = os.path.join(rdir, '%s-%s-s%d.json' % (key.strip('?').replace('/', '_')[:60], a.tier, a.seed))
        wit = {'property': pid, 'tier': a.tier, 'seed': a.seed, 'key': key, 'repo_head': head, 'replay_mode': 'single-case',
               'case': ws[0]['case'], 'fail': ws[0]['fail'], 'shard': ws[0].get('shard'), 'more': [w['fail'] for w in ws[1:3]]}
        json.dump(wit, open(path, 'w'), indent=1)
        confirmed = True
        if n < 6 and ws[0]['case'].get('k') not in ('end-of-shard', 'S7-repo-suite'):
            def replay(extra):
                try:
                    rr = subprocess.run([PY, '-B', '-m', 'vmon.replay', pid, path] + extra, env=env, cwd=HERE, capture_output=True, text=True, timeout=3600)
                    return rr.returncode != 0          # 1 = reproduced; anything else non-zero: the replay itself broke, keep the observation
                except subprocess.TimeoutExpired:
                    return True
            confirmed = (not ws[0]['fail']['monitor'].startswith('S1')) and replay([])
            if not confirmed and ws[0].get('shard'):
                # not reproducible in isolation: the failure may depend on state left by earlier cases of the same shard
                # (a cross-case history).  Re-execute the shard's prefix in one fresh process.
                if replay(['--prefix']):
                    confirmed = True
                    wit['replay_mode'] = 'shard-prefix'
                    json.dump(wit, open(path, 'w'), indent=1)
        if confirmed:
            violations.append((key, path, ws[0]['fail']))
        else:
            inconclusive.append('witness %s did not reproduce in a fresh process' % path)
    # -- evidence ---------------------------------------------------------------------------
    evaluations = sum(v for k, v in mon.items() if k != 'S1-payload-invariant')
    ev = {
        'property_id': pid, 'tier': a.tier, 'seed': a.seed,
        'level': getattr(mod, 'LEVEL', 'exploration'),
        'coverage': {
            'evaluations': evaluations,
            'distinct_nontrivial': len(classes),
            'rule': getattr(mod, 'RULE', '') + ' || object histories: ' + __import__('vmon.histories', fromlist=['HIST']).HIST.get(pid, ''),
            'samples': pick_samples(samples),
            'cases': cases,
            'cases_reexecuted_under_S1_invariants': sancases,
            'monitor_evaluations': dict(sorted(mon.items())),
            'monitor_failures': dict(sorted(monfail.items())),
            'anchors_executed_lines': {k: [len(anchors[k]), anchor_lines.get(k, 0)] for k in sorted(anchors)},
            'anchors_not_executed': anchors_idle,
            'states_seen': {k: max(len(v), statecount.get(k, 0)) for k, v in states.items()},
            'exhaustive_subdomains': dict(sorted(exhaustive.items())),
            'exhaustive': False,
            'sanitizer_S1_invariant_evaluations': dict(s1),
            'known_findings_observed': sorted(seen_known),
            'unclassified_or_new_witness_keys': [k for k, _, _ in violations],
            'notes': dict(notes),
            'oracle_selftest': selftest,
            'repo_head': head, 'repo_diff': diffid, 'crysp_path': crysp_path,
            'shards': len(results),
        },
        'assumptions': getattr(mod, 'ASSUMPTIONS', []),
        'wall_s': round(time.time() - t0, 2),
        'violations': len(violations),
    }
    if 'programs' in notes:
        ev['coverage']['programs'] = notes['programs']
    if inconclusive:
        ev['coverage']['inconclusive'] = inconclusive
    os.makedirs(os.path.join(OUT, 'evidence'), exist_ok=True)
    evp = os.path.join(OUT, 'evidence', pid + '.json')
    if ev['coverage']['evaluations'] >= 1 and len(classes) >= 2:
        json.dump(ev, open(evp, 'w'), indent=1, sort_keys=False)
    else:
        inconclusive.append('too few events observed (evaluations=%d classes=%d)' % (evaluations, len(classes)))
        ev['coverage']['evaluations'] = max(1, evaluations)
        ev['coverage']['distinct_nontrivial'] = len(classes)
        json.dump(ev, open(evp + '.inconclusive', 'w'), indent=1)
    # -- verdict ------------------------------------------------------------------------------
    for l in lines:
        print(l)
    print('%s tier=%s seed=%d: %d cases, %d monitor evaluations over %d classes, %d shards, %.0fs; S1 evaluations %d'
          % (pid, a.tier, a.seed, cases, evaluations, len(classes), len(results), time.time() - t0, sum(s1.values())))
    if violations:
        for key, path, f in violations[:25]:
            print('  witness [%s] monitor=%s got=%s want=%s' % (key, f['monitor'], json.dumps(f.get('got'))[:160], json.dumps(f.get('want'))[:160]))
            print('VIOLATION property=%s replay=%s' % (pid, path))
        return 1
    if inconclusive:
        for r in inconclusive[:10]:
            print('INCONCLUSIVE property=%s reason=%s' % (pid, r))
        return 3
    print('HELD property=%s on everything explored' % pid)
    return 0

if __name__ == '__main__':
    sys.exit(main())
