"""python -m vmon.replay <ID> <witness.json>: re-execute exactly one recorded case on the
current /repo tree.  exit 1 + VIOLATION line if a monitor fails again, exit 0 otherwise."""
import importlib, json, sys

def main(argv):
    pid, path = argv[0], argv[1]
    from vmon import core, sanitize
    w = json.load(open(path))
    mod = importlib.import_module('vmon.props.' + pid.lower())
    ctx = core.Ctx(w.get('tier', 'quick'), w.get('seed', 0))
    ctx.classify = getattr(mod, 'classify', None)
    case = w['case']
    ctx.case = case
    sanitize.import_all()
    base = sanitize.global_state()
    core.arm(getattr(mod, 'CASE_CPU_S', 120.0) * 5)
    try:
        mod.run(case, ctx, core.rng_for(w.get('seed', 0), pid, 'case', case.get('_i', 0)))
    except core.CaseTimeout:
        ctx.check('no-result', False, got='CPU budget exhausted')
    except Exception as e:
        ctx.check('monitor-crashed', False, got='%s: %s' % (type(e).__name__, e))
    finally:
        core.disarm()
    ch = sanitize.diff_state(base, sanitize.global_state())
    ctx.check('S3-global-state', not ch, got=ch)
    print('replayed case: %s' % json.dumps(case)[:400])
    print('monitor evaluations: %s' % dict(ctx.mon))
    if ctx.nfails:
        for f in ctx.fails[:5]:
            print('  FAIL %s' % json.dumps(f['fail'])[:600])
        print('VIOLATION property=%s replay=%s' % (pid, path))
        return 1
    print('no monitor failed on this case')
    return 0

if __name__ == '__main__':
    sys.exit(main(sys.argv[1:]))
