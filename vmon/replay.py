"""python -m vmon.replay <ID> <witness.json> [--prefix]: re-execute a recorded case on the current tree.
Default: exactly the one case.  --prefix (or "replay_mode": "shard-prefix" in the witness): re-execute, in one
process, every case that the original shard ran up to and including the failing one -- needed when the
failure depends on state left behind by earlier cases (a cross-case history).
exit 1 + VIOLATION line if a monitor fails again on the recorded case, exit 0 otherwise."""
import importlib, json, sys

def main(argv):
    pid, path = argv[0], argv[1]
    from vmon import core, sanitize
    w = json.load(open(path))
    prefix = '--prefix' in argv or w.get('replay_mode') == 'shard-prefix'
    mod = importlib.import_module('vmon.props.' + pid.lower())
    ctx = core.Ctx(w.get('tier', 'quick'), w.get('seed', 0))
    ctx.classify = getattr(mod, 'classify', None)
    case = w['case']
    sanitize.import_all()
    sh = w.get('shard') or {}
    if prefix and sh and sh.get('san'):
        sanitize.install_invariants()
    base = sanitize.global_state()
    todo = [case]
    if prefix and sh and '_i' in case:
        todo = []
        rng = core.rng_for(sh['seed'], pid, 'gen')
        for i, c in enumerate(mod.cases(sh['tier'], rng)):
            if i > case['_i']:
                break
            if sh['san']:
                if (i % sh['stride']) != 0 or ((i // sh['stride']) % sh['nshards']) != sh['shard']:
                    continue
            elif i % sh['nshards'] != sh['shard']:
                continue
            todo.append(dict(c, _i=i))
    nbefore = 0
    for c in todo:
        last = c is todo[-1]
        if last:
            nbefore = ctx.nfails
        ctx.case = c
        core.arm(getattr(mod, 'CASE_CPU_S', 120.0) * 5)
        try:
            mod.run(c, ctx, core.rng_for(w.get('seed', 0), pid, 'case', c.get('_i', 0)))
        except core.CaseTimeout:
            ctx.check('no-result', False, got='CPU budget exhausted')
        except Exception as e:
            ctx.check('monitor-crashed', False, got='%s: %s' % (type(e).__name__, e))
        finally:
            core.disarm()
        if sh.get('san'):
            for kind, what in sanitize.drain_s1():
                ctx.check('S1-payload-invariant', False, got=what, kind=kind)
    ch = sanitize.diff_state(base, sanitize.global_state())
    ctx.check('S3-global-state', not ch, got=ch)
    print('replayed %d case(s)%s, last: %s' % (len(todo), ' (shard prefix)' if prefix else '', json.dumps(case)[:300]))
    print('monitor evaluations: %s' % dict(ctx.mon))
    if ctx.nfails > nbefore or (prefix and ctx.nfails):
        for f in ctx.fails[-5:]:
            print('  FAIL %s' % json.dumps(f['fail'])[:600])
        print('VIOLATION property=%s replay=%s' % (pid, path))
        return 1
    print('no monitor failed on this case')
    return 0

if __name__ == '__main__':
    sys.exit(main(sys.argv[1:]))
