"""python -m vmon.replay <ID> <witness.json> [--prefix]: re-execute a recorded case on the current tree.
Default: exactly the one case.  --prefix (or "replay_mode": "shard-prefix" in the witness): re-execute, in one
process, every case that the original shard ran up to and including the failing one (and up to the point where
a shared-state change was noticed) -- needed when the failure depends on state left behind by earlier cases.
exit 1 + VIOLATION line if a monitor fails again, exit 0 otherwise."""
import importlib, json, os, sys

def open_keys(pid):
    here = os.path.dirname(os.path.dirname(os.path.abspath(__file__)))
    try:
        return {f['key'] for f in json.load(open(os.path.join(here, 'known_findings.json')))['findings'] if f['property'] == pid and f['status'] == 'open'}
    except Exception:
        return set()

def main(argv):
    pid, path = argv[0], argv[1]
    from vmon import core, sanitize
    from vmon.runner import Runner
    w = json.load(open(path))
    prefix = '--prefix' in argv or w.get('replay_mode') == 'shard-prefix'
    mod = importlib.import_module('vmon.props.' + pid.lower())
    ctx = core.Ctx(w.get('tier', 'quick'), w.get('seed', 0))
    ctx.classify = getattr(mod, 'classify', None)
    case = w['case']
    sanitize.import_all()
    sh = w.get('shard') or {}
    san = bool(prefix and sh and sh.get('san'))
    if san:
        sanitize.install_invariants()
    ctx.shardinfo = sh or None
    R = Runner(mod, ctx, pid, w.get('seed', 0), san=san, cpu_budget=getattr(mod, 'CASE_CPU_S', 120.0) * 5)
    todo = [case]
    if prefix and sh and '_i' in case:
        todo = []
        upto = max(case['_i'], case.get('_upto', 0))
        rng = core.rng_for(sh['seed'], pid, 'gen')
        for i, c in enumerate(mod.cases(sh['tier'], rng)):
            if i > upto:
                break
            if sh['san']:
                if (i % sh['stride']) != 0 or ((i // sh['stride']) % sh['nshards']) != sh['shard']:
                    continue
            elif i % sh['nshards'] != sh['shard']:
                continue
            todo.append(dict(c, _i=i))
    for c in todo:
        R.step(c)
    R.finish()
    known = open_keys(pid)
    bad = [f for f in ctx.fails if f['fail'].get('key') not in known]
    print('replayed %d case(s)%s, recorded case: %s' % (len(todo), ' (shard prefix)' if prefix else '', json.dumps(case)[:300]))
    print('monitor evaluations: %s' % dict(ctx.mon))
    if bad:
        for f in bad[:5]:
            print('  FAIL %s' % json.dumps(f['fail'])[:700])
        print('VIOLATION property=%s replay=%s' % (pid, path))
        return 1
    print('no monitor failed')
    return 0

if __name__ == '__main__':
    sys.exit(main(sys.argv[1:]))
