"""The Python-level sanitizer layer (DESIGN.md section 4).

S1  payload invariants on Bits / Poly (icontract.invariant applied in place)
S3  global-state fingerprint of every module-level / class-level mutable of crysp.*
S4  anchor coverage through sys.monitoring LINE events (DISABLE after first hit)
S5  failpoint injector through sys.monitoring LINE events (raises InjectedFault)
"""
import collections, importlib, os, pkgutil, sys, types

from vmon.core import CaseTimeout

class InvariantBroken(Exception):
    pass

class InjectedFault(Exception):
    pass

S1_COUNT = collections.Counter()
S1_FAIL = []          # (kind, repr) of objects that broke an invariant (recorded, not raised)

# ------------------------------------------------------------------------------------------
# S1
def install_invariants():
    """icontract invariants on the real classes, in place.  The conditions *record and
    return True* so that a violation is logged as an event and the workload continues
    (the harness turns the log into witnesses after each case)."""
    import icontract
    import crysp.bits as B, crysp.poly as P

    def bits_payload_fits(self):
        # reads the slots directly: no crysp code (property getter) runs inside the monitor, so a failpoint
        # armed by S5 cannot fire in here and the monitor does not perturb the line count
        S1_COUNT['bits'] += 1
        iv = self.ival; mk = self.mask
        sz = getattr(self, '_Bits__sz', None)
        if sz is None:
            sz = self.size          # the slot was renamed by a refactoring: fall back to the public property
        ok = isinstance(iv, int) and isinstance(sz, int) and 0 <= iv <= mk and mk == (1 << sz) - 1
        if not ok and len(S1_FAIL) < 50:
            S1_FAIL.append(('Bits', 'ival=%r size=%r mask=%r' % (iv, sz, mk)))
        return True

    def poly_coeffs_in_ring(self):
        S1_COUNT['poly'] += 1
        iv = self.ival
        ok = True
        if iv is not None:
            m = self.mask
            for x in iv:
                if not isinstance(x, int) or not (m == -1 or 0 <= x <= m):
                    ok = False
                    break
        if not ok and len(S1_FAIL) < 50:
            S1_FAIL.append(('Poly', 'mask=%r ival=%r' % (self.mask, iv[:20])))
        return True

    icontract.invariant(bits_payload_fits, error=InvariantBroken)(B.Bits)
    icontract.invariant(poly_coeffs_in_ring, error=InvariantBroken)(P.SubPoly)
    icontract.invariant(poly_coeffs_in_ring, error=InvariantBroken)(P.Poly)
    try:
        import crysp.skein as SK
        icontract.invariant(bits_payload_fits, error=InvariantBroken)(SK.Tweak)
    except Exception:
        pass
    return True

def drain_s1():
    out = list(S1_FAIL)
    del S1_FAIL[:]
    return out

# ------------------------------------------------------------------------------------------
# S3
CRYSP_MODULES = ['crysp.bits', 'crysp.poly', 'crysp.padding', 'crysp.mode', 'crysp.sha', 'crysp.md',
                 'crysp.blake', 'crysp.keccak', 'crysp.skein', 'crysp.threefish', 'crysp.aes',
                 'crysp.des', 'crysp.serpent', 'crysp.salsa20', 'crysp.chacha', 'crysp.rc4',
                 'crysp.crc', 'crysp.hmac', 'crysp.tlsh', 'crysp.nilsimsa', 'crysp.wb',
                 'crysp.utils.operators', 'crysp.utils.perms', 'crysp.utils.knapsack']

def import_all():
    mods = []
    for n in CRYSP_MODULES:
        try:
            mods.append(importlib.import_module(n))
        except Exception:
            pass
    return mods

def _fp(o, depth=0):
    """structural fingerprint of a value; crysp instances other than Bits/Poly are opaque"""
    import crysp.bits as B, crysp.poly as P
    if isinstance(o, B.Bits):
        return ('B', o.ival, o.size)
    if isinstance(o, P.SubPoly):
        return ('P', o.mask, tuple(o.ival) if o.ival is not None else None)
    if isinstance(o, (int, float, str, bytes, bool)) or o is None:
        return o
    if isinstance(o, bytearray):
        return ('ba', bytes(o))
    if depth > 4:
        return ('deep', type(o).__name__)
    if isinstance(o, (list, tuple)):
        return (type(o).__name__,) + tuple(_fp(x, depth + 1) for x in o)
    if isinstance(o, dict):
        try:
            items = sorted(o.items(), key=lambda kv: repr(kv[0]))
        except Exception:
            items = list(o.items())
        return ('d',) + tuple((repr(k), _fp(v, depth + 1)) for k, v in items)
    if isinstance(o, (set, frozenset)):
        return ('s',) + tuple(sorted(map(repr, o)))
    return ('obj', type(o).__name__)

def global_state():
    """{qualified name: fingerprint} of all shared mutable state of crysp.*"""
    snap = {}
    for m in import_all():
        mn = m.__name__
        for name, v in list(vars(m).items()):
            if name.startswith('__'):
                continue
            if isinstance(v, types.ModuleType):
                continue
            if isinstance(v, types.FunctionType):
                if v.__module__ != mn:
                    continue
                if v.__defaults__:
                    snap['%s.%s.__defaults__' % (mn, name)] = _fp(v.__defaults__)
                if v.__kwdefaults__:
                    snap['%s.%s.__kwdefaults__' % (mn, name)] = _fp(v.__kwdefaults__)
                if v.__dict__:
                    snap['%s.%s.__dict__' % (mn, name)] = _fp(v.__dict__)
                continue
            if isinstance(v, type):
                if v.__module__ != mn:
                    continue
                for an, av in list(vars(v).items()):
                    if an.startswith('__') and an.endswith('__'):
                        continue
                    if isinstance(av, (types.FunctionType, property, staticmethod, classmethod)):
                        f = av if isinstance(av, types.FunctionType) else None
                        if f is not None and f.__defaults__:
                            snap['%s.%s.%s.__defaults__' % (mn, name, an)] = _fp(f.__defaults__)
                        continue
                    if type(av).__name__ in ('member_descriptor', 'getset_descriptor'):
                        continue
                    snap['%s.%s.%s' % (mn, name, an)] = _fp(av)
                continue
            fp = _fp(v)
            if isinstance(fp, tuple) and fp and fp[0] == 'obj':
                continue                      # singleton instances: their own state is theirs
            snap['%s.%s' % (mn, name)] = fp
    return snap

def diff_state(a, b):
    ch = []
    for k in a:
        if k not in b:
            ch.append(k + ' (deleted)')
        elif a[k] != b[k]:
            ch.append(k)
    for k in b:
        if k not in a:
            ch.append(k + ' (created)')
    return sorted(ch)

# ------------------------------------------------------------------------------------------
# S4 / S5 on sys.monitoring
mon = sys.monitoring
TOOL_COV = mon.COVERAGE_ID
TOOL_FP = mon.DEBUGGER_ID

COVERED = collections.defaultdict(set)    # (basename, qualname) -> executed lines

def _cov_line(code, line):
    fn = code.co_filename
    if '/crysp/' in fn:
        COVERED[(os.path.basename(fn), code.co_qualname)].add(line)
    return mon.DISABLE

def start_coverage():
    try:
        mon.use_tool_id(TOOL_COV, 'vmon-cov')
    except ValueError:
        pass
    mon.register_callback(TOOL_COV, mon.events.LINE, _cov_line)
    mon.set_events(TOOL_COV, mon.events.LINE)

def stop_coverage():
    mon.set_events(TOOL_COV, 0)

def coverage_report(anchors):
    """anchors: list of (module file basename, qualname).  Returns {anchor: [executed, total]}"""
    rep = {}
    for fn, qn in anchors:
        executed = set()
        for (f, q), lines in COVERED.items():
            if f == fn and (q == qn or q.startswith(qn + '.')):
                executed |= lines
        rep['%s:%s' % (fn, qn)] = sorted(executed)
    return rep

def files_executed():
    """{file basename: number of distinct executed lines} over everything the workload ran in crysp"""
    out = collections.Counter()
    for (f, q), lines in COVERED.items():
        out[f] += len(lines)
    return dict(out)

def anchor_total_lines(anchors):
    """number of statement lines of each anchored function in the current tree"""
    import crysp
    tot = {}
    root = os.path.dirname(crysp.__file__)
    for fn, qn in anchors:
        path = os.path.join(root, fn) if os.path.exists(os.path.join(root, fn)) else os.path.join(root, 'utils', fn)
        n = 0
        try:
            co = compile(open(path, encoding='latin-1').read(), path, 'exec')
            n = _count_lines(co, qn.split('.'))
        except Exception:
            n = 0
        tot['%s:%s' % (fn, qn)] = n
    return tot

def _count_lines(co, parts):
    for c in co.co_consts:
        if isinstance(c, types.CodeType) and c.co_name == parts[0]:
            if len(parts) == 1:
                lines = set()
                def walk(k):
                    for _, _, ln in k.co_lines():
                        if ln is not None:
                            lines.add(ln)
                    for cc in k.co_consts:
                        if isinstance(cc, types.CodeType):
                            walk(cc)
                walk(c)
                return max(0, len(lines) - 1)
            return _count_lines(c, parts[1:])
    return 0

# S5 ---------------------------------------------------------------------------------------
_fp_state = {'n': 0, 'target': None, 'where': None}

_CLEANUP = {}      # file name -> set of lines lying in `finally:` bodies and `except` handlers
FP_SKIPPED = collections.Counter()

def _cleanup_lines(fn):
    ls = _CLEANUP.get(fn)
    if ls is None:
        import ast
        ls = set()
        try:
            tree = ast.parse(open(fn, encoding='latin-1').read())
            for node in ast.walk(tree):
                if isinstance(node, ast.Try):
                    for part in list(node.finalbody) + [h for h in node.handlers]:
                        ls.update(range(part.lineno, (part.end_lineno or part.lineno) + 1))
        except (OSError, SyntaxError):
            pass
        _CLEANUP[fn] = ls
    return ls

def _in_cleanup():
    """is the line about to execute part of some crysp frame's clean-up (a `finally:` body / `except` handler, or code
    called from one)?  An error *there* is not 'a call that ended in an error' but an error in the recovery itself, which
    no implementation can make atomic; faults are not injected into it."""
    f = sys._getframe(2)
    while f is not None:
        fn = f.f_code.co_filename
        if '/crysp/' in fn and f.f_lineno in _cleanup_lines(fn):
            return True
        f = f.f_back
    return False

def _fp_line(code, line):
    if '/crysp/' not in code.co_filename:
        return mon.DISABLE
    st = _fp_state
    st['n'] += 1
    if st['target'] is not None and st['n'] == st['target']:
        if _in_cleanup():
            FP_SKIPPED['injection points inside clean-up code (not injected)'] += 1
            return
        st['where'] = (os.path.basename(code.co_filename), code.co_qualname, line)
        raise InjectedFault('%s:%s:%d' % st['where'])

_fp_ready = [False]
def _fp_setup():
    if not _fp_ready[0]:
        try:
            mon.use_tool_id(TOOL_FP, 'vmon-failpoint')
        except ValueError:
            pass
        mon.register_callback(TOOL_FP, mon.events.LINE, _fp_line)
        _fp_ready[0] = True

def run_counting(f):
    """run f(); return (outcome, number of crysp lines executed)"""
    return run_with_fault(f, None)

def run_with_fault(f, k):
    """run f() with an InjectedFault raised at the k-th executed crysp line (None: just count).
    returns (value-or-exception, lines executed, where)"""
    _fp_setup()
    st = _fp_state
    st['n'] = 0; st['target'] = k; st['where'] = None
    mon.set_events(TOOL_FP, mon.events.LINE)
    try:
        try:
            r = f()
        except CaseTimeout:
            raise
        except BaseException as e:
            r = e
    finally:
        mon.set_events(TOOL_FP, 0)
        mon.restart_events()
    return r, st['n'], st['where']
