"""independent word-level (bitslice) Serpent-1 reference; I/O convention = little-endian 128-bit ints like repo tests (NESSIE strings read LE)
Inverse S-boxes and the inverse linear transform are derived, not copied."""
M32=0xffffffff
SB=[[3,8,15,1,10,6,5,11,14,13,4,2,7,0,9,12],[15,12,2,7,9,0,5,10,1,11,14,8,6,13,3,4],[8,6,7,9,3,12,10,15,13,1,14,4,0,11,5,2],[0,15,11,8,12,9,6,3,13,1,2,4,10,7,5,14],
    [1,15,8,3,12,0,11,6,2,5,4,10,9,14,7,13],[15,5,2,11,4,10,9,12,0,3,14,8,13,6,7,1],[7,2,12,5,8,4,6,11,14,9,1,15,13,3,10,0],[1,13,15,0,14,8,2,11,7,4,12,10,9,3,5,6]]
SI=[[s.index(i) for i in range(16)] for s in SB]
def rotl(x,n): return ((x<<n)|(x>>(32-n)))&M32
def sbox(tab,w):
    o=[0,0,0,0]
    for j in range(32):
        v=sum(((w[k]>>j)&1)<<k for k in range(4)); y=tab[v]
        for k in range(4): o[k]|=((y>>k)&1)<<j
    return o
def LT(x):
    x0,x1,x2,x3=x
    x0=rotl(x0,13); x2=rotl(x2,3); x1^=x0^x2; x3^=x2^((x0<<3)&M32)
    x1=rotl(x1,1); x3=rotl(x3,7); x0^=x1^x3; x2^=x3^((x1<<7)&M32)
    x0=rotl(x0,5); x2=rotl(x2,22); return [x0,x1,x2,x3]
def LTi(x):
    x0,x1,x2,x3=x
    x2=rotl(x2,10); x0=rotl(x0,27); x2^=x3^((x1<<7)&M32); x0^=x1^x3
    x3=rotl(x3,25); x1=rotl(x1,31); x3^=x2^((x0<<3)&M32); x1^=x0^x2
    x2=rotl(x2,29); x0=rotl(x0,19); return [x0,x1,x2,x3]
def keys(key):
    k=int.from_bytes(key,'little')
    if len(key)<32: k|=1<<(8*len(key))
    w=[(k>>(32*i))&M32 for i in range(8)]
    for i in range(132):
        w.append(rotl(w[-8]^w[-5]^w[-3]^w[-1]^0x9e3779b9^i,11))
    w=w[8:]
    return [sbox(SB[(3-i)%8],w[4*i:4*i+4]) for i in range(33)]
def enc(key,blk):
    K=keys(key); x=int.from_bytes(blk,'little'); B=[(x>>(32*i))&M32 for i in range(4)]
    for i in range(32):
        B=sbox(SB[i%8],[a^b for a,b in zip(B,K[i])])
        B=LT(B) if i<31 else [a^b for a,b in zip(B,K[32])]
    return sum(b<<(32*i) for i,b in enumerate(B)).to_bytes(16,'little')
def dec(key,blk):
    K=keys(key); x=int.from_bytes(blk,'little'); B=[(x>>(32*i))&M32 for i in range(4)]
    for i in range(31,-1,-1):
        B=[a^b for a,b in zip(B,K[32])] if i==31 else LTi(B)
        B=[a^b for a,b in zip(sbox(SI[i%8],B),K[i])]
    return sum(b<<(32*i) for i,b in enumerate(B)).to_bytes(16,'little')

def selftest():
    k=bytes.fromhex("80"+"00"*31); assert enc(k,bytes(16)).hex().upper()=="A223AA1288463C0E2BE38EBD825616C0"
    k=bytes.fromhex("11"*32); assert enc(k,bytes.fromhex("11"*16)).hex().upper()=="A482EAA5D5771F2FDB2EA1A5F141B9E2"
    import random
    r=random.Random(3)
    for _ in range(20):
        k=r.randbytes(r.randrange(1,33)); b=r.randbytes(16); assert dec(k,enc(k,b))==b
    return 'Serpent reference reproduces two NESSIE vectors (little-endian reading) and inverts itself'
