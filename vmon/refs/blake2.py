"""Plain-int BLAKE2b/BLAKE2s (RFC 7693) with an arbitrary starting byte counter, used for the counter-carry
classes; self-tested against hashlib."""
import struct
SIG = [[0,1,2,3,4,5,6,7,8,9,10,11,12,13,14,15],[14,10,4,8,9,15,13,6,1,12,0,2,11,7,5,3],[11,8,12,0,5,2,15,13,10,14,3,6,7,1,9,4],
       [7,9,3,1,13,12,11,14,2,6,5,10,4,0,15,8],[9,0,5,7,2,4,10,15,14,1,11,12,6,8,3,13],[2,12,6,10,0,11,8,3,4,13,7,5,15,14,1,9],
       [12,5,1,15,14,13,4,10,0,7,6,3,9,2,8,11],[13,11,7,14,12,1,3,9,5,0,15,4,8,6,2,10],[6,15,14,9,11,3,0,8,12,2,13,7,1,4,10,5],
       [10,2,8,4,7,6,1,5,15,11,9,14,3,12,13,0]]
IVB = [0x6a09e667f3bcc908,0xbb67ae8584caa73b,0x3c6ef372fe94f82b,0xa54ff53a5f1d36f1,0x510e527fade682d1,0x9b05688c2b3e6c1f,0x1f83d9abfb41bd6b,0x5be0cd19137e2179]
IVS = [x >> 32 for x in IVB]

def compress(big, h, blk, t, last):
    w = 64 if big else 32; m_ = (1 << w) - 1
    IV = IVB if big else IVS
    R = (32, 24, 16, 63) if big else (16, 12, 8, 7)
    m = struct.unpack('<16Q' if big else '<16L', blk)
    v = list(h) + list(IV)
    v[12] ^= t & m_; v[13] ^= (t >> w) & m_
    if last: v[14] ^= m_
    ror = lambda x, n: ((x >> n) | (x << (w - n))) & m_
    def G(a, b, c, d, x, y):
        v[a] = (v[a] + v[b] + x) & m_; v[d] = ror(v[d] ^ v[a], R[0]); v[c] = (v[c] + v[d]) & m_; v[b] = ror(v[b] ^ v[c], R[1])
        v[a] = (v[a] + v[b] + y) & m_; v[d] = ror(v[d] ^ v[a], R[2]); v[c] = (v[c] + v[d]) & m_; v[b] = ror(v[b] ^ v[c], R[3])
    for r in range(12 if big else 10):
        s = SIG[r % 10]
        G(0,4,8,12,m[s[0]],m[s[1]]); G(1,5,9,13,m[s[2]],m[s[3]]); G(2,6,10,14,m[s[4]],m[s[5]]); G(3,7,11,15,m[s[6]],m[s[7]])
        G(0,5,10,15,m[s[8]],m[s[9]]); G(1,6,11,12,m[s[10]],m[s[11]]); G(2,7,8,13,m[s[12]],m[s[13]]); G(3,4,9,14,m[s[14]],m[s[15]])
    return [h[i] ^ v[i] ^ v[i + 8] for i in range(8)]

def blake2(big, M, outlen=None, start_bytes=0, trace=None):
    """unkeyed, default parameters except the digest length; counter starts at start_bytes"""
    B = 128 if big else 64
    if outlen is None: outlen = B // 2
    IV = IVB if big else IVS
    h = list(IV); h[0] ^= 0x01010000 ^ outlen
    n = max(1, -(-len(M) // B))
    for i in range(n):
        blk = M[i * B:(i + 1) * B]
        t = start_bytes + min(len(M), (i + 1) * B)
        if trace is not None: trace.append((t, i == n - 1))
        h = compress(big, h, blk.ljust(B, b'\0'), t, i == n - 1)
    return b''.join(x.to_bytes(B // 16, 'little') for x in h)[:outlen]

def selftest():
    import hashlib, random
    r = random.Random(7)
    for i in range(60):
        M = r.randbytes(r.choice([0, 1, 63, 64, 65, 127, 128, 129, 256, 300]))
        ol = r.randrange(1, 33)
        assert blake2(False, M, ol) == hashlib.blake2s(M, digest_size=ol).digest()
        assert blake2(True, M, 2 * ol) == hashlib.blake2b(M, digest_size=2 * ol).digest()
    return 'BLAKE2 reference agrees with hashlib on 120 inputs'
if __name__ == '__main__': print(selftest())
