import ctypes, ctypes.util
_l=ctypes.CDLL(ctypes.util.find_library('crypto') or 'libcrypto.so.3')
_l.OSSL_PROVIDER_load.restype=ctypes.c_void_p; _l.OSSL_PROVIDER_load.argtypes=[ctypes.c_void_p,ctypes.c_char_p]
_leg=_l.OSSL_PROVIDER_load(None,b'legacy'); _def=_l.OSSL_PROVIDER_load(None,b'default')
_l.EVP_CIPHER_fetch.restype=ctypes.c_void_p; _l.EVP_CIPHER_fetch.argtypes=[ctypes.c_void_p,ctypes.c_char_p,ctypes.c_char_p]
_l.EVP_CIPHER_CTX_new.restype=ctypes.c_void_p
_l.EVP_CIPHER_CTX_free.argtypes=[ctypes.c_void_p]
_l.EVP_CipherInit_ex.argtypes=[ctypes.c_void_p,ctypes.c_void_p,ctypes.c_void_p,ctypes.c_char_p,ctypes.c_char_p,ctypes.c_int]
_l.EVP_CIPHER_CTX_set_padding.argtypes=[ctypes.c_void_p,ctypes.c_int]
_l.EVP_CIPHER_CTX_set_key_length.argtypes=[ctypes.c_void_p,ctypes.c_int]
_l.EVP_CipherUpdate.argtypes=[ctypes.c_void_p,ctypes.c_char_p,ctypes.POINTER(ctypes.c_int),ctypes.c_char_p,ctypes.c_int]
_l.EVP_CipherFinal_ex.argtypes=[ctypes.c_void_p,ctypes.c_char_p,ctypes.POINTER(ctypes.c_int)]
def cipher(name,key,data,iv=None,enc=1):
    c=_l.EVP_CIPHER_fetch(None,name.encode(),None)
    if not c: raise ValueError('no cipher '+name)
    ctx=_l.EVP_CIPHER_CTX_new()
    try:
        assert _l.EVP_CipherInit_ex(ctx,c,None,None,None,enc)==1
        _l.EVP_CIPHER_CTX_set_key_length(ctx,len(key))
        assert _l.EVP_CipherInit_ex(ctx,None,None,key,iv,enc)==1
        _l.EVP_CIPHER_CTX_set_padding(ctx,0)
        out=ctypes.create_string_buffer(len(data)+64); n=ctypes.c_int(0)
        assert _l.EVP_CipherUpdate(ctx,out,ctypes.byref(n),data,len(data))==1
        r=out.raw[:n.value]
        assert _l.EVP_CipherFinal_ex(ctx,out,ctypes.byref(n))==1
        return r+out.raw[:n.value]
    finally: _l.EVP_CIPHER_CTX_free(ctx)
if __name__=='__main__':
    print(bool(_leg),bool(_def))
    for n,k in [('AES-128-ECB',16),('DES-ECB',8),('DES-EDE-ECB',16),('DES-EDE3-ECB',24),('RC4',5),('ChaCha20',32)]:
        try: print(n,cipher(n,bytes(k),bytes(16),iv=bytes(16)).hex())
        except Exception as e: print(n,'ERR',e)
