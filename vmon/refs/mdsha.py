"""Independent plain-int references for MD4, MD5, SHA-0, SHA-1, SHA-224/256/384/512, SHA-512/t,
bit-granular (message = first L bits of the byte string, bit 0 = MSB of byte 0), written from
RFC 1320, RFC 1321 and FIPS 180-4.  Exposes the compression functions so that a digest can be
chained from the standard IV with an arbitrary total length in the length field."""
import math, struct

M32 = 0xffffffff
M64 = (1 << 64) - 1
def rl32(x, n): return ((x << n) | (x >> (32 - n))) & M32
def rr(x, n, w): return ((x >> n) | (x << (w - n))) & ((1 << w) - 1)

# ---- MD4 / MD5 ------------------------------------------------------------------------------
MD_IV = [0x67452301, 0xefcdab89, 0x98badcfe, 0x10325476]

def md4_compress(H, blk):
    X = struct.unpack('<16L', blk)
    a, b, c, d = H
    F = lambda x, y, z: (x & y) | (~x & z & M32)
    G = lambda x, y, z: (x & y) | (x & z) | (y & z)
    Hh = lambda x, y, z: x ^ y ^ z
    for i in range(16):
        k = i; s = (3, 7, 11, 19)[i % 4]
        a, b, c, d = d, rl32((a + F(b, c, d) + X[k]) & M32, s), b, c
    for i in range(16):
        k = (i % 4) * 4 + i // 4; s = (3, 5, 9, 13)[i % 4]
        a, b, c, d = d, rl32((a + G(b, c, d) + X[k] + 0x5a827999) & M32, s), b, c
    order = (0, 8, 4, 12, 2, 10, 6, 14, 1, 9, 5, 13, 3, 11, 7, 15)
    for i in range(16):
        k = order[i]; s = (3, 9, 11, 15)[i % 4]
        a, b, c, d = d, rl32((a + Hh(b, c, d) + X[k] + 0x6ed9eba1) & M32, s), b, c
    return [(x + y) & M32 for x, y in zip(H, (a, b, c, d))]

MD5_T = [int(abs(math.sin(i + 1)) * 4294967296) & M32 for i in range(64)]
MD5_S = [7, 12, 17, 22] * 4 + [5, 9, 14, 20] * 4 + [4, 11, 16, 23] * 4 + [6, 10, 15, 21] * 4

def md5_compress(H, blk):
    X = struct.unpack('<16L', blk)
    a, b, c, d = H
    for i in range(64):
        if i < 16: f = (b & c) | (~b & d & M32); g = i
        elif i < 32: f = (d & b) | (~d & c & M32); g = (5 * i + 1) % 16
        elif i < 48: f = b ^ c ^ d; g = (3 * i + 5) % 16
        else: f = c ^ (b | (~d & M32)); g = (7 * i) % 16
        a, b, c, d = d, (b + rl32((a + f + MD5_T[i] + X[g]) & M32, MD5_S[i])) & M32, b, c
    return [(x + y) & M32 for x, y in zip(H, (a, b, c, d))]

# ---- SHA-0 / SHA-1 ---------------------------------------------------------------------------
SHA1_IV = [0x67452301, 0xefcdab89, 0x98badcfe, 0x10325476, 0xc3d2e1f0]

def sha1_compress(H, blk, version=1):
    W = list(struct.unpack('>16L', blk))
    for t in range(16, 80):
        x = W[t - 3] ^ W[t - 8] ^ W[t - 14] ^ W[t - 16]
        W.append(rl32(x, 1) if version else x)
    a, b, c, d, e = H
    for t in range(80):
        if t < 20: f = (b & c) | (~b & d & M32); K = 0x5a827999
        elif t < 40: f = b ^ c ^ d; K = 0x6ed9eba1
        elif t < 60: f = (b & c) | (b & d) | (c & d); K = 0x8f1bbcdc
        else: f = b ^ c ^ d; K = 0xca62c1d6
        a, b, c, d, e = (rl32(a, 5) + f + e + K + W[t]) & M32, a, rl32(b, 30), c, d
    return [(x + y) & M32 for x, y in zip(H, (a, b, c, d, e))]

# ---- SHA-2: constants computed from the primes (FIPS 180-4 section 4.2) -------------------------
def _primes(n):
    ps, c = [], 2
    while len(ps) < n:
        if all(c % p for p in ps): ps.append(c)
        c += 1
    return ps
def _iroot(x, k):
    lo, hi = 0, 1 << (x.bit_length() // k + 2)
    while lo < hi:
        mid = (lo + hi + 1) // 2
        if mid ** k <= x: lo = mid
        else: hi = mid - 1
    return lo
def _frac(p, k, bits):
    return _iroot(p << (k * bits), k) & ((1 << bits) - 1)
_P = _primes(80)
K256 = [_frac(p, 3, 32) for p in _P[:64]]
K512 = [_frac(p, 3, 64) for p in _P]
IV256 = [_frac(p, 2, 32) for p in _P[:8]]
IV512 = [_frac(p, 2, 64) for p in _P[:8]]
IV384 = [_frac(p, 2, 64) for p in _P[8:16]]
IV224 = [x & M32 for x in IV384]                 # FIPS 180-4: second 32 bits of the 9th..16th primes' roots

def sha2_compress(H, blk, w):
    m = (1 << w) - 1
    if w == 32:
        W = list(struct.unpack('>16L', blk)); K = K256; N = 64
        s0 = lambda x: rr(x, 7, 32) ^ rr(x, 18, 32) ^ (x >> 3); s1 = lambda x: rr(x, 17, 32) ^ rr(x, 19, 32) ^ (x >> 10)
        S0 = lambda x: rr(x, 2, 32) ^ rr(x, 13, 32) ^ rr(x, 22, 32); S1 = lambda x: rr(x, 6, 32) ^ rr(x, 11, 32) ^ rr(x, 25, 32)
    else:
        W = list(struct.unpack('>16Q', blk)); K = K512; N = 80
        s0 = lambda x: rr(x, 1, 64) ^ rr(x, 8, 64) ^ (x >> 7); s1 = lambda x: rr(x, 19, 64) ^ rr(x, 61, 64) ^ (x >> 6)
        S0 = lambda x: rr(x, 28, 64) ^ rr(x, 34, 64) ^ rr(x, 39, 64); S1 = lambda x: rr(x, 14, 64) ^ rr(x, 18, 64) ^ rr(x, 41, 64)
    for t in range(16, N):
        W.append((s1(W[t - 2]) + W[t - 7] + s0(W[t - 15]) + W[t - 16]) & m)
    a, b, c, d, e, f, g, h = H
    for t in range(N):
        T1 = (h + S1(e) + ((e & f) ^ (~e & g & m)) + K[t] + W[t]) & m
        T2 = (S0(a) + ((a & b) ^ (a & c) ^ (b & c))) & m
        a, b, c, d, e, f, g, h = (T1 + T2) & m, a, b, c, (d + T1) & m, e, f, g
    return [(x + y) & m for x, y in zip(H, (a, b, c, d, e, f, g, h))]

def _sha512t_iv(t):
    """FIPS 180-4 section 5.3.6: IV generation function for SHA-512/t"""
    H = [x ^ 0xa5a5a5a5a5a5a5a5 for x in IV512]
    msg = ('SHA-512/%d' % t).encode()
    H = _finish('>', 64, lambda h, b: sha2_compress(h, b, 64), H, msg, len(msg) * 8, len(msg) * 8)
    return H

ALGS = {}
def _reg(name, block, w, endian, iv, comp, outlen):
    ALGS[name] = dict(block=block, w=w, endian=endian, iv=iv, comp=comp, outlen=outlen)

def _finish(endian, w, comp, H, tail, tailbits, totalbits):
    """pad the last (partial) data: tail holds tailbits message bits (MSB-first), emit 1, zeros, length"""
    block = w * 16 // 8
    nbytes = (tailbits + 7) // 8
    t = bytearray(tail[:nbytes])
    r = tailbits % 8
    if r:
        t[-1] = (t[-1] & (0xff << (8 - r)) & 0xff) | (0x80 >> r)
    else:
        t.append(0x80)
    lenbytes = w // 4
    while (len(t) + lenbytes) % block:
        t.append(0)
    L = totalbits % (1 << (2 * w))
    t += L.to_bytes(lenbytes, 'little' if endian == '<' else 'big')
    for i in range(0, len(t), block):
        H = comp(H, bytes(t[i:i + block]))
    return H

_reg('md4', 64, 32, '<', MD_IV, md4_compress, 16)
_reg('md5', 64, 32, '<', MD_IV, md5_compress, 16)
_reg('sha0', 64, 32, '>', SHA1_IV, lambda h, b: sha1_compress(h, b, 0), 20)
_reg('sha1', 64, 32, '>', SHA1_IV, lambda h, b: sha1_compress(h, b, 1), 20)
_reg('sha224', 64, 32, '>', IV224, lambda h, b: sha2_compress(h, b, 32), 28)
_reg('sha256', 64, 32, '>', IV256, lambda h, b: sha2_compress(h, b, 32), 32)
_reg('sha384', 128, 64, '>', IV384, lambda h, b: sha2_compress(h, b, 64), 48)
_reg('sha512', 128, 64, '>', IV512, lambda h, b: sha2_compress(h, b, 64), 64)
_reg('sha512_224', 128, 64, '>', _sha512t_iv(224), lambda h, b: sha2_compress(h, b, 64), 28)
_reg('sha512_256', 128, 64, '>', _sha512t_iv(256), lambda h, b: sha2_compress(h, b, 64), 32)

def out(name, H):
    a = ALGS[name]
    fmt = 'little' if a['endian'] == '<' else 'big'
    return b''.join(x.to_bytes(a['w'] // 8, fmt) for x in H)[:a['outlen']]

def digest(name, msg, bitlen=None, start_bits=0, state=None):
    """digest of the first bitlen bits of msg.  start_bits/state: continue a chain that already
    absorbed start_bits bits (a multiple of the block size) leaving the given state."""
    a = ALGS[name]
    if bitlen is None:
        bitlen = len(msg) * 8
    assert bitlen <= len(msg) * 8
    H = list(state if state is not None else a['iv'])
    blk = a['block']
    nfull = bitlen // (blk * 8)
    for i in range(nfull):
        H = a['comp'](H, msg[i * blk:(i + 1) * blk])
    H = _finish(a['endian'], a['w'], a['comp'], H, msg[nfull * blk:], bitlen - nfull * blk * 8, start_bits + bitlen)
    return out(name, H)

def hmac(name, key, msg):
    a = ALGS[name]
    B = a['block']
    if len(key) > B:
        key = digest(name, key)
    key = key.ljust(B, b'\0')
    inner = digest(name, bytes(x ^ 0x36 for x in key) + msg)
    return digest(name, bytes(x ^ 0x5c for x in key) + inner)

HASHLIB = {'md5': 'md5', 'sha1': 'sha1', 'sha224': 'sha224', 'sha256': 'sha256', 'sha384': 'sha384', 'sha512': 'sha512',
           'sha512_224': 'sha512_224', 'sha512_256': 'sha512_256', 'md4': 'md4'}

def hashlib_available():
    """names for which hashlib can serve as a second oracle in this process (md4 needs OpenSSL's legacy provider)"""
    import hashlib
    try:
        from vmon.refs import ossl      # noqa: loading it activates the legacy provider
    except Exception:
        pass
    ok = set()
    for name, hn in HASHLIB.items():
        try:
            hashlib.new(hn); ok.add(name)
        except Exception:
            pass
    return ok

def selftest(n=120):
    import hashlib, random
    try:
        from vmon.refs import ossl          # loads the legacy provider: hashlib.new('md4') then works
    except Exception:
        pass
    r = random.Random(1)
    have = []
    for name, hn in HASHLIB.items():
        try:
            hashlib.new(hn)
        except Exception:
            continue
        have.append(name)
        for i in range(n):
            m = r.randbytes(r.choice([0, 1, 55, 56, 57, 63, 64, 65, 111, 112, 113, 119, 120, 127, 128, 129, 200, 300]))
            assert digest(name, m) == hashlib.new(hn, m).digest(), (name, len(m))
    assert digest('md4', b'abc').hex() == 'a448017aaf21d8525fc10ae87aa6729d'
    assert digest('md4', b'12345678901234567890123456789012345678901234567890123456789012345678901234567890').hex() == 'e33b4ddc9c38f2199c3e7b164fcc0536'
    assert digest('sha0', b'abc').hex() == '0164b8a914cd2a5e74c4f7ff082c4d97f1edf880'
    assert digest('sha0', b'abcdbcdecdefdefgefghfghighijhijkijkljklmklmnlmnomnopnopq').hex() == 'd2516ee1acfa5baf33dfc1c471e438449ef134c8'
    # FIPS 180-4 / SHAVS bit-oriented vectors
    assert digest('sha1', b'\x98', 5).hex() == '29826b003b906e660eff4027ce98af3531ac75ba'
    assert digest('sha256', b'\x68', 5).hex() == 'd6d3e02a31a84a8caa9718ed6c2057be09db45e7823eb5079ce7a573a3760f95'
    assert digest('sha512', b'\xb0', 5).hex().startswith('d4ee29a9e90985446b913cf1d1376c836f4be2c1cf3cada0')
    return 'MD/SHA references agree with hashlib on %d random inputs for %s; MD4/SHA-0/bit-oriented KATs ok' % (n, ','.join(have))

if __name__ == '__main__':
    print(selftest())
