"""Straightforward (non-incremental) models of TLSH (Oliver, Cheng, Chen 2013 + reference implementation semantics)
and Nilsimsa 0.2.4.  No shared code with crysp."""
# straightforward TLSH model (paper + reference impl semantics), no incremental state
import math
T=[1,87,49,12,176,178,102,166,121,193,6,84,249,230,44,163,14,197,213,181,161,85,218,80,64,239,24,226,236,142,38,200,110,177,104,103,141,253,255,50,77,101,81,18,45,96,31,222,25,107,190,70,86,237,240,34,72,242,20,214,244,227,149,235,97,234,57,22,60,250,82,175,208,5,127,199,111,62,135,248,174,169,211,58,66,154,106,195,245,171,17,187,182,179,0,243,132,56,148,75,128,133,158,100,130,126,91,13,153,246,216,219,119,68,223,78,83,88,201,99,122,11,92,32,136,114,52,10,138,30,48,183,156,35,61,26,143,74,251,94,129,162,63,152,170,7,115,167,241,206,3,150,55,59,151,220,90,53,23,131,125,173,15,238,79,95,89,16,105,137,225,224,217,160,37,123,118,73,2,157,46,116,9,145,134,228,207,212,202,215,69,229,27,188,67,124,168,252,42,4,29,108,21,247,19,205,39,203,233,40,186,147,198,192,155,33,164,191,98,204,165,180,117,76,140,36,210,172,41,54,159,8,185,232,113,196,231,47,146,120,51,65,28,144,254,221,93,189,194,139,112,43,71,109,184,209]
def pearson(salt,a,b,c):
    h=0
    for x in (salt,a,b,c): h=T[h^x]
    return h
# (salt, offsets back from current byte) per window size
TRIP=[(2,1,2),(3,1,3),(5,2,3),(7,2,4),(11,1,4),(13,3,4),(17,1,5),(19,2,5),(23,3,5),(29,4,5),(31,1,6),(37,2,6),(41,3,6),(43,4,6),(47,5,6),(53,1,7),(59,2,7),(61,3,7),(67,4,7),(71,5,7),(73,6,7)]
NTRIP={4:3,5:6,6:10,7:15,8:21}
def tlsh(data,buckets=128,window=5,chklen=1,force=False):
    n=len(data)
    if n<50 or (not force and n<256): return None
    bk=[0]*256; ck=[0]*chklen
    for i in range(window-1,n):
        c0=data[i]
        ck[0]=pearson(0,c0,data[i-1],ck[0])
        for k in range(1,chklen): ck[k]=pearson(ck[k-1],c0,data[i-1],ck[k])
        for salt,o1,o2 in TRIP[:NTRIP[window]]:
            bk[pearson(salt,c0,data[i-o1],data[i-o2])]+=1
    b=bk[:buckets]; s=sorted(b); q=buckets//4
    q1,q2,q3=s[q-1],s[2*q-1],s[3*q-1]
    nz=sum(1 for x in b if x)
    if buckets==48:
        if nz<18: return None
        if nz<=24: return 'UNSPEC'
    elif nz<=buckets//2: return None
    code=bytearray(q)
    for i,v in enumerate(b):
        e=3 if v>q3 else 2 if v>q2 else 1 if v>q1 else 0
        code[i//4]|=e<<(2*(i%4))
    if n<=656: L=math.floor(math.log(n)/math.log(1.5))
    elif n<=3199: L=math.floor(math.log(n)/math.log(1.3)-8.72777)
    else: L=math.floor(math.log(n)/math.log(1.1)-62.5472)
    L&=0xff
    r1=int(q1*100/q3)%16; r2=int(q2*100/q3)%16
    sw=lambda x:((x&15)<<4)|(x>>4)
    return bytes([sw(x) for x in ck]+[sw(L),(r1<<4)|r2])+bytes(code[::-1])

def tlsh_lvalue(n):
    """the L byte of a TLSH digest for an input of n bytes"""
    if n <= 656: L = math.floor(math.log(n) / math.log(1.5))
    elif n <= 3199: L = math.floor(math.log(n) / math.log(1.3) - 8.72777)
    else: L = math.floor(math.log(n) / math.log(1.1) - 62.5472)
    return L & 0xff

def tlsh_buckets(data, window=5):
    """the 256 bucket counts (used by generators that aim at the bucket-population gate)"""
    bk = [0] * 256
    for i in range(window - 1, len(data)):
        c0 = data[i]
        for salt, o1, o2 in TRIP[:NTRIP[window]]:
            bk[pearson(salt, c0, data[i - o1], data[i - o2])] += 1
    return bk

def tlsh_header(h, chklen):
    """(checksum bytes, Lvalue, q1 ratio, q2 ratio, code) from digest bytes"""
    sw = lambda x: ((x & 15) << 4) | (x >> 4)
    return (bytes(sw(x) for x in h[:chklen]), sw(h[chklen]), h[chklen + 1] >> 4, h[chklen + 1] & 15, bytes(h[chklen + 2:][::-1]))

def tlsh_distance(h0, h1, chklen, lvalue=True):
    """TLSH paper section 3 / reference totalDiff: header + body distance on raw digests"""
    c0, L0, a0, b0, code0 = tlsh_header(h0, chklen)
    c1, L1, a1, b1, code1 = tlsh_header(h1, chklen)
    def md(x, y, n):
        d = abs(x - y) % n
        return min(d, n - d)
    d = 0
    if c0 != c1: d += 1
    if lvalue:
        l = md(L0, L1, 256)
        d += l if l <= 1 else l * 12
    for x, y in ((a0, a1), (b0, b1)):
        q = md(x, y, 16)
        d += q if q <= 1 else (q - 1) * 12
    for x, y in zip(code0, code1):
        for t in range(4):
            u = abs(((x >> (2 * t)) & 3) - ((y >> (2 * t)) & 3))
            d += 6 if u == 3 else u
    return d

# ---- Nilsimsa 0.2.4 -----------------------------------------------------------------------------------
def nil_tran(target=53):
    T = [0] * 256
    j = 0
    for i in range(256):
        j = (j * target + 1) & 255
        j += j
        if j > 255: j -= 255
        k = 0
        while k < i:                      # C: for(k=0;k<i;k++) if (j==tran[k]) { j=(j+1)&255; k=0; }
            if T[k] == j:
                j = (j + 1) & 255
                k = 0
            k += 1
        T[i] = j
    return T

def nilsimsa(data, target=53):
    T = nil_tran(target)
    t3 = lambda a, b, c, n: ((T[(a + n) & 255] ^ T[b] * (n + n + 1)) + T[c ^ T[n]]) & 255
    acc = [0] * 256
    n = len(data)
    for i in range(n):
        c = data[i]
        if i >= 2:
            acc[t3(c, data[i - 1], data[i - 2], 0)] += 1
        if i >= 3:
            acc[t3(c, data[i - 1], data[i - 3], 1)] += 1
            acc[t3(c, data[i - 2], data[i - 3], 2)] += 1
        if i >= 4:
            acc[t3(c, data[i - 1], data[i - 4], 3)] += 1
            acc[t3(c, data[i - 2], data[i - 4], 4)] += 1
            acc[t3(c, data[i - 3], data[i - 4], 5)] += 1
            acc[t3(data[i - 4], data[i - 1], c, 6)] += 1
            acc[t3(data[i - 4], data[i - 3], c, 7)] += 1
    total = 0 if n < 3 else 1 if n == 3 else 4 if n == 4 else 8 * n - 28
    thr = total // 256
    code = bytearray(32)
    for i in range(256):
        if acc[i] > thr:
            code[31 - (i >> 3)] |= 1 << (i & 7)
    return bytes(code)

def selftest():
    assert bytes(nil_tran()[:16]).hex() == '02d69e6ff91d04abd022161fd873a1ac'
    assert nilsimsa(b'abcdefgh').hex() == '14c8118000000000030800000004042004189020001308014088003280000078'
    assert nilsimsa(b'This is a much more ridiculous test because of 21347597.').hex() == '5d9c6a6b22384bcd524a8d414d82237777433fc1a07a02c3e06985d96ecdf8fb'
    m = b'The best documentation is the UNIX source. After all, this is what the system uses for documentation when it decides what to do next! The manuals paraphrase the source code, often having been written at different times and by different people than who wrote the code. Think of them as guidelines. Sometimes they are more like wishes... Nonetheless, it is all too common to turn to the source and find options and behaviors that are not documented in the manual. Sometimes you find options described in the manual that are unimplemented and ignored by the source.\n'
    assert tlsh(m).hex().upper() == '1EF02BEF718027B0160B4391212923ED7F1A463D563B1549B86CF62973B197AD2731F8'
    return 'Nilsimsa model reproduces the tran table prefix and two published digests; TLSH model reproduces the reference vector'
if __name__ == '__main__': print(selftest())
