"""Independent bit-level Keccak reference (FIPS 202 section 3: state as a list of b bits, round constants from the
LFSR), sponge with pad10*1, duplex object; NIST (MSB-aligned last byte) and native (LSB-first) message readers."""
def keccak_f(b, S):  # S list of b bits, index w*(5y+x)+z
    w=b//25; l=w.bit_length()-1; nr=12+2*l
    A=[[ [S[w*(5*y+x)+z] for z in range(w)] for y in range(5)] for x in range(5)]
    def rc(t):
        if t%255==0: return 1
        R=[1,0,0,0,0,0,0,0]
        for i in range(1,t%255+1):
            R=[0]+R
            R[0]^=R[8];R[4]^=R[8];R[5]^=R[8];R[6]^=R[8]
            R=R[:8]
        return R[0]
    for ir in range(12+2*l-nr,12+2*l):
        C=[[A[x][0][z]^A[x][1][z]^A[x][2][z]^A[x][3][z]^A[x][4][z] for z in range(w)] for x in range(5)]
        D=[[C[(x-1)%5][z]^C[(x+1)%5][(z-1)%w] for z in range(w)] for x in range(5)]
        A=[[[A[x][y][z]^D[x][z] for z in range(w)] for y in range(5)] for x in range(5)]
        # rho
        A2=[[None]*5 for _ in range(5)]
        A2[0][0]=A[0][0][:]
        x,y=1,0
        for t in range(24):
            off=((t+1)*(t+2)//2)
            A2[x][y]=[A[x][y][(z-off)%w] for z in range(w)]
            x,y=y,(2*x+3*y)%5
        A=A2
        # pi
        A=[[A[(x+3*y)%5][x] for y in range(5)] for x in range(5)]
        # chi
        A=[[[A[x][y][z]^((A[(x+1)%5][y][z]^1)&A[(x+2)%5][y][z]) for z in range(w)] for y in range(5)] for x in range(5)]
        # iota
        RC=[0]*w
        for j in range(l+1):
            RC[(1<<j)-1]=rc(j+7*ir)
        A[0][0]=[A[0][0][z]^RC[z] for z in range(w)]
    return [A[x][y][z] for y in range(5) for x in range(5) for z in range(w)]

def sponge(b,r,bits,d):
    P=list(bits)+[1]+[0]*((-len(bits)-2)%r)+[1]
    S=[0]*b
    for i in range(0,len(P),r):
        blk=P[i:i+r]+[0]*(b-r)
        S=keccak_f(b,[s^p for s,p in zip(S,blk)])
    Z=S[:r]
    while len(Z)<d:
        S=keccak_f(b,S); Z+=S[:r]
    return Z[:d]
def bytes2bits_lsb(m,L=None):
    bits=[(m[i//8]>>(i%8))&1 for i in range(len(m)*8)]
    return bits if L is None else bits[:L]
def bytes2bits_nist(m,L):
    # NIST convention: full bytes lsb-first; last partial byte: the L%8 bits are the MSBs of the byte, in order msb first
    n,k=divmod(L,8)
    bits=[(m[i//8]>>(i%8))&1 for i in range(n*8)]
    if k: bits+=[((m[n]>>(8-k))>>j)&1 for j in range(k)]
    return bits
def bits2bytes(bits):
    out=bytearray((len(bits)+7)//8)
    for i,b in enumerate(bits): out[i//8]|=b<<(i%8)
    return bytes(out)

class Duplex(object):
    def __init__(self, b, r):
        self.b, self.r, self.S = b, r, [0] * b
    def __call__(self, bits, outlen):
        assert len(bits) <= self.r - 2
        P = list(bits) + [1] + [0] * (self.r - len(bits) - 2) + [1]
        self.S = keccak_f(self.b, [s ^ p for s, p in zip(self.S, P + [0] * (self.b - self.r))])
        return self.S[:outlen]

def selftest():
    import hashlib
    for m in (b'', b'abc', b'a' * 200):
        assert bits2bytes(sponge(1600, 1088, bytes2bits_lsb(m) + [0, 1], 256)) == hashlib.sha3_256(m).digest()
        assert bits2bytes(sponge(1600, 576, bytes2bits_lsb(m) + [0, 1], 512)) == hashlib.sha3_512(m).digest()
        assert bits2bytes(sponge(1600, 1344, bytes2bits_lsb(m) + [1, 1, 1, 1], 800)) == hashlib.shake_128(m).digest(100)
    # small-width KAT of the Keccak team (Keccak[r=40,c=160], Len=43) and the 29-bit message KAT (ShortMsgKAT_0 r=1024)
    assert bits2bytes(sponge(200, 40, bytes2bits_nist(bytes.fromhex('F219BD629820'), 43), 160)).hex().upper() == 'C8F9476DBF0B0FE01F80629FD5689097AAAC6732'
    assert bits2bytes(sponge(1600, 1024, bytes2bits_nist(b'\xc0', 2), 64)).hex().upper() == 'BD1DAED8990F6277'
    assert bits2bytes(sponge(1600, 1024, bytes2bits_nist(bytes.fromhex('53587bc8'), 29), 64)).hex().upper() == '2F07BF03B8246646'
    return 'bit-level Keccak reference agrees with hashlib SHA3-256/512, SHAKE128 and three Keccak-team KATs (incl. b=200)'
if __name__ == '__main__': print(selftest())
