"""Independent int-based Threefish / UBI / Skein 1.3 reference incl. tree hashing (Skein 1.3 paper sections 3.3-3.5)."""
M64=(1<<64)-1
ROT={4:((14,16),(52,57),(23,40),(5,37),(25,33),(46,12),(58,22),(32,32)),
 8:((46,36,19,37),(33,27,14,42),(17,49,36,39),(44,9,54,56),(39,30,34,24),(13,50,10,17),(25,29,39,43),(8,35,56,22)),
 16:((24,13,8,47,8,17,22,37),(38,19,10,55,49,18,23,52),(33,4,51,13,34,41,59,17),(5,20,48,41,47,28,16,25),(41,9,37,31,12,47,44,30),(16,34,56,51,4,53,42,41),(31,44,47,46,19,42,44,25),(9,48,35,52,23,31,37,20))}
PI={4:(0,3,2,1),8:(2,1,4,7,6,5,0,3),16:(0,9,2,13,6,11,4,15,10,7,12,3,14,5,8,1)}
def words(b): return [int.from_bytes(b[i:i+8],'little') for i in range(0,len(b),8)]
def unwords(w): return b''.join(x.to_bytes(8,'little') for x in w)
def rotl(x,n): return ((x<<n)|(x>>(64-n)))&M64
def _setup(key,tweak):
    k=words(key); t=words(tweak); nw=len(k); nr=80 if nw==16 else 72
    kn=0x1BD11BDAA9FC1A22
    for x in k: kn^=x
    k=k+[kn]; t=t+[t[0]^t[1]]
    def sub(s):
        ks=[k[(s+i)%(nw+1)] for i in range(nw)]
        ks[nw-3]=(ks[nw-3]+t[s%3])&M64; ks[nw-2]=(ks[nw-2]+t[(s+1)%3])&M64; ks[nw-1]=(ks[nw-1]+s)&M64
        return ks
    return nw,nr,sub
def tf_enc(key,tweak,block):
    nw,nr,sub=_setup(key,tweak)
    v=words(block)
    for d in range(nr):
        if d%4==0:
            ks=sub(d//4); v=[(a+b)&M64 for a,b in zip(v,ks)]
        f=[0]*nw
        for j in range(nw//2):
            x0,x1=v[2*j],v[2*j+1]
            y0=(x0+x1)&M64; y1=rotl(x1,ROT[nw][d%8][j])^y0
            f[2*j],f[2*j+1]=y0,y1
        v=[f[PI[nw][i]] for i in range(nw)]
    ks=sub(nr//4)
    return unwords([(a+b)&M64 for a,b in zip(v,ks)])
def tf_dec(key,tweak,block):
    nw,nr,sub=_setup(key,tweak)
    ks=sub(nr//4)
    v=[(a-b)&M64 for a,b in zip(words(block),ks)]
    for d in range(nr-1,-1,-1):
        f=[0]*nw
        for i in range(nw): f[PI[nw][i]]=v[i]
        v=[0]*nw
        for j in range(nw//2):
            y0,y1=f[2*j],f[2*j+1]
            x1=y1^y0; r=ROT[nw][d%8][j]; x1=((x1>>r)|(x1<<(64-r)))&M64
            v[2*j]=(y0-x1)&M64; v[2*j+1]=x1
        if d%4==0:
            ks=sub(d//4); v=[(a-b)&M64 for a,b in zip(v,ks)]
    return unwords(v)
TRACE=None   # set to a list to record the 128-bit tweak of every Threefish call
T_KEY,T_CFG,T_PRS,T_PK,T_KDF,T_NON,T_MSG,T_OUT=0,4,8,12,16,20,48,63
def ubi(G,M,Ts,bitlen=None):
    # Ts: 128-bit int starting tweak (position/treelevel/type)
    nb=len(G)
    if bitlen is None: bitlen=len(M)*8
    nbytes=(bitlen+7)//8
    M=bytearray(M[:nbytes]); B=0
    if bitlen%8:
        B=1; k=bitlen%8
        M[-1]=(M[-1]&(0xff<<(8-k))&0xff)|(1<<(7-k))
    NM=len(M)
    p=(-NM)%nb if NM else nb
    M=bytes(M)+bytes(p)
    k=len(M)//nb
    H=G
    for i in range(k):
        pos=min(NM,(i+1)*nb)
        tw=Ts+pos+((1<<126) if i==0 else 0)+(((1<<127)+(B<<119)) if i==k-1 else 0)
        blk=M[i*nb:(i+1)*nb]
        if TRACE is not None: TRACE.append(tw)
        E=tf_enc(H,tw.to_bytes(16,'little'),blk)
        H=bytes(a^b for a,b in zip(E,blk))
    return H
def skein(Nb,No,M,bitlen=None,key=None,prs=None,PK=None,kdf=None,nonce=None,Yl=0,Yf=0,Ym=0):
    nb=Nb//8
    Kp=bytes(nb)
    if key: Kp=ubi(Kp,key,T_KEY<<120)
    C=b'SHA3'+(1).to_bytes(2,'little')+bytes(2)+No.to_bytes(8,'little')+bytes([Yl,Yf,Ym])+bytes(13)
    G=ubi(Kp,C,T_CFG<<120)
    for x,ty in ((prs,T_PRS),(PK,T_PK),(kdf,T_KDF),(nonce,T_NON)):
        if x: G=ubi(G,x,ty<<120)
    if Yl==Yf==Ym==0:
        G=ubi(G,M,T_MSG<<120,bitlen)
    else:
        Nl=nb<<Yl; Nn=nb<<Yf
        leaves=[M[i:i+Nl] for i in range(0,len(M),Nl)] or [b'']
        Ml=b''.join(ubi(G,m,i*Nl+(1<<112)+(T_MSG<<120)) for i,m in enumerate(leaves))
        l=1
        while True:
            if len(Ml)==nb: G=Ml; break
            if l==Ym-1:
                G=ubi(G,Ml,(Ym<<112)+(T_MSG<<120)); break
            nodes=[Ml[i:i+Nn] for i in range(0,len(Ml),Nn)]
            Ml=b''.join(ubi(G,m,i*Nn+((l+1)<<112)+(T_MSG<<120)) for i,m in enumerate(nodes))
            l+=1
    out=b''; i=0
    n=(No+7)//8
    while len(out)<n:
        out+=ubi(G,i.to_bytes(8,'little'),T_OUT<<120); i+=1
    return out[:n]

def selftest():
    h = bytes.fromhex
    # Threefish (Skein 1.3 reference KATs)
    assert tf_enc(bytes(32), bytes(16), bytes(32)).hex() == "84da2a1f8beaee947066ae3e3103f1ad536db1f4a1192495116b9f3ce6133fd8"
    k = bytes(range(0x10, 0x30)); t = bytes(range(16)); m = bytes(range(0xff, 0xdf, -1))
    assert tf_enc(k, t, m).hex() == "e0d091ff0eea8fdfc98192e62ed80ad59d865d08588df476657056b5955e97df" and tf_dec(k, t, tf_enc(k, t, m)) == m
    assert tf_enc(bytes(64), bytes(16), bytes(64)).hex().startswith("b1a2bbc6ef6025bc40eb3822161f36e3")
    assert tf_enc(bytes(128), bytes(16), bytes(128)).hex().startswith("f05c3d0a3d05b304f785ddc7d1e03601")
    k = bytes(range(0x10, 0x90)); m = bytes(range(0xff, 0x7f, -1))
    assert tf_enc(k, t, m).hex().startswith("a6654ddbd73cc3b05dd777105aa849bc") and tf_dec(k, t, tf_enc(k, t, m)) == m
    # Skein 1.3 appendix C and the NIST-style vectors used by the repository's tests
    assert skein(256, 256, b'\xff').hex().upper() == "0B98DCD198EA0E50A7A244C444E25C23DA30C10FC9A1F270A6637F1F34E67ED2"
    assert skein(256, 256, b'').hex().upper() == "C8877087DA56E072870DAA843F176E9453115929094C3A40C463A196C29BF7BA"
    assert skein(512, 512, b'\xff').hex().upper().startswith("71B7BCE6FE6452227B9CED6014249E5B")
    assert skein(1024, 1024, b'\xff').hex().upper().startswith("E62C05802EA0152407CDD8787FDA9E35")
    assert skein(256, 256, b'\0', 1).hex().upper() == "52D2B5FFC2966C06BA7BB0CC2BABBC935E99146487FB361A239830D4D688C988"
    assert skein(256, 256, bytes(33), 257).hex().upper() == "3EAEA996FAD95B6032654D6CA93AC3450BED8C754CD8000460A2876E34E52FA7"
    assert skein(256, 256, b'', key=h("CB41F1706CDE09651203C2D0EFBADDF8")).hex().upper() == "886E4EFEFC15F06AA298963971D7A25398FFFE5681C84DB39BD00851F64AE29D"
    M = h("000102010401060108010A010C010E01100112011401160118011A011C011E01200122012401260128012A012C012E01300132013401360138013A013C013E01"
          "400142014401460148014A014C014E01500152015401560158015A015C015E01600162016401660168016A016C016E01700172017401760178017A017C01")
    assert skein(256, 256, M, Yl=2, Yf=2, Ym=2).hex().upper() == "E3CF8FCDD20BFE85D175448007226C20FF22A65DC9DF7588BE305E5CCC3F4941"
    return 'Threefish/UBI/Skein reference reproduces 5 Threefish KATs and 8 Skein vectors (hash, bit lengths, MAC, tree)'
if __name__ == '__main__': print(selftest())
