"""Independent plain-int BLAKE-224/256/384/512 reference (BLAKE submission, final round tweak: 14/16 rounds),
bit-granular, with the per-block counter rule (t = message bits up to and including the block, 0 for a
pad-only block).  blake_trace additionally returns the (t, block index) sequence."""
import hashlib,struct
SIG=[[0,1,2,3,4,5,6,7,8,9,10,11,12,13,14,15],[14,10,4,8,9,15,13,6,1,12,0,2,11,7,5,3],[11,8,12,0,5,2,15,13,10,14,3,6,7,1,9,4],[7,9,3,1,13,12,11,14,2,6,5,10,4,0,15,8],[9,0,5,7,2,4,10,15,14,1,11,12,6,8,3,13],[2,12,6,10,0,11,8,3,4,13,7,5,15,14,1,9],[12,5,1,15,14,13,4,10,0,7,6,3,9,2,8,11],[13,11,7,14,12,1,3,9,5,0,15,4,8,6,2,10],[6,15,14,9,11,3,0,8,12,2,13,7,1,4,10,5],[10,2,8,4,7,6,1,5,15,11,9,14,3,12,13,0]]
C64=[0x243F6A8885A308D3,0x13198A2E03707344,0xA4093822299F31D0,0x082EFA98EC4E6C89,0x452821E638D01377,0xBE5466CF34E90C6C,0xC0AC29B7C97C50DD,0x3F84D5B5B5470917,0x9216D5D98979FB1B,0xD1310BA698DFB5AC,0x2FFD72DBD01ADFB7,0xB8E1AFED6A267E96,0xBA7C9045F12C7F99,0x24A19947B3916CF7,0x0801F2E2858EFC16,0x636920D871574E69]
C32=[x for c in C64[:8] for x in (c>>32,c&0xffffffff)]
IV={224:[0xc1059ed8,0x367cd507,0x3070dd17,0xf70e5939,0xffc00b31,0x68581511,0x64f98fa7,0xbefa4fa4],
256:[0x6a09e667,0xbb67ae85,0x3c6ef372,0xa54ff53a,0x510e527f,0x9b05688c,0x1f83d9ab,0x5be0cd19],
384:[0xcbbb9d5dc1059ed8,0x629a292a367cd507,0x9159015a3070dd17,0x152fecd8f70e5939,0x67332667ffc00b31,0x8eb44a8768581511,0xdb0c2e0d64f98fa7,0x47b5481dbefa4fa4],
512:[0x6a09e667f3bcc908,0xbb67ae8584caa73b,0x3c6ef372fe94f82b,0xa54ff53a5f1d36f1,0x510e527fade682d1,0x9b05688c2b3e6c1f,0x1f83d9abfb41bd6b,0x5be0cd19137e2179]}
def blake(size,msg,salt=0,bitlen=None,trace=None,start_bits=0,state=None):
    big=size>256; w=64 if big else 32; mask=(1<<w)-1; C=C64 if big else C32
    rounds=16 if big else 14; rots=(32,25,16,11) if big else (16,12,8,7); bs=w*16
    if bitlen is None: bitlen=len(msg)*8
    bits=[(msg[i//8]>>(7-i%8))&1 for i in range(bitlen)]
    # pad
    L=bitlen
    LT=start_bits+bitlen
    pad=[1]+[0]*((-(L+2+2*w))%bs)+[1 if size in (256,512) else 0]
    bits=bits+pad+[(LT>>(2*w-1-i))&1 for i in range(2*w)]
    assert len(bits)%bs==0
    s=[(salt>>(w*(3-i)))&mask for i in range(4)]
    h=list(state if state is not None else IV[size])
    ror=lambda x,n: ((x>>n)|(x<<(w-n)))&mask
    nblk=len(bits)//bs
    for bi in range(nblk):
        blk=bits[bi*bs:(bi+1)*bs]
        m=[int(''.join(map(str,blk[i*w:(i+1)*w])),2) for i in range(16)]
        # counter: message bits so far incl. this block; 0 if block has no message bits
        t=start_bits+min(L,(bi+1)*bs) if L>bi*bs else 0
        if trace is not None: trace.append(t)
        t0,t1=t&mask,(t>>w)&mask
        v=h+[s[i]^C[i] for i in range(4)]+[t0^C[4],t0^C[5],t1^C[6],t1^C[7]]
        def G(a,b,c,d,r,i):
            p,q=SIG[r%10][2*i],SIG[r%10][2*i+1]
            v[a]=(v[a]+v[b]+(m[p]^C[q]))&mask; v[d]=ror(v[d]^v[a],rots[0]); v[c]=(v[c]+v[d])&mask; v[b]=ror(v[b]^v[c],rots[1])
            v[a]=(v[a]+v[b]+(m[q]^C[p]))&mask; v[d]=ror(v[d]^v[a],rots[2]); v[c]=(v[c]+v[d])&mask; v[b]=ror(v[b]^v[c],rots[3])
        for r in range(rounds):
            G(0,4,8,12,r,0);G(1,5,9,13,r,1);G(2,6,10,14,r,2);G(3,7,11,15,r,3)
            G(0,5,10,15,r,4);G(1,6,11,12,r,5);G(2,7,8,13,r,6);G(3,4,9,14,r,7)
        h=[h[i]^s[i%4]^v[i]^v[i+8] for i in range(8)]
    out=b''.join(x.to_bytes(w//8,'big') for x in h)
    return out[:size//8]

def hmac(size,key,msg):
    B=128 if size>256 else 64
    if len(key)>B: key=blake(size,key)
    key=key.ljust(B,b'\0')
    return blake(size,bytes(x^0x5c for x in key)+blake(size,bytes(x^0x36 for x in key)+msg))

def selftest():
    assert blake(256,b'\0').hex().upper()=="0CE8D4EF4DD7CD8D62DFDED9D4EDB0A774AE6A41929A74DA23109E8F11139C87"
    assert blake(256,bytes(72)).hex().upper()=="D419BAD32D504FB7D44D460C42C5593FE544FA4C135DEC31E21BD9ABDCC22D41"
    assert blake(224,b'\0').hex().upper()=="4504CB0314FB2A4F7A692E696E487912FE3F2468FE312C73A5278EC5"
    assert blake(224,bytes(72)).hex().upper()=="F5AA00DD1CB847E3140372AF7B5C46B4888D82C8C0A917913CFB5D04"
    assert blake(512,b'\0').hex().upper()=="97961587F6D970FABA6D2478045DE6D1FABD09B61AE50932054D52BC29D31BE4FF9102B9F69E2BBDB83BE13D4B9C06091E5FA0B48BD081B634058BE0EC49BEB3"
    assert blake(512,bytes(144)).hex().upper()=="313717D608E9CF758DCB1EB0F0C3CF9FC150B2D500FB33F51C52AFC99D358A2F1374B8A38BBA7974E7F6EF79CAB16F22CE1E649D6E01AD9589C213045D545DDE"
    assert blake(384,b'\0').hex().upper()=="10281F67E135E90AE8E882251A355510A719367AD70227B137343E1BC122015C29391E8545B5272D13A7C2879DA3D807"
    assert blake(384,bytes(144)).hex().upper()=="0B9845DD429566CDAB772BA195D271EFFE2D0211F16991D766BA749447C5CDE569780B2DAA66C4B224A2EC2E5D09174C"
    return 'BLAKE reference reproduces the 8 submission vectors'
if __name__=='__main__': print(selftest())
