"""Executable model of the documented Bits semantics: a vector is a Python list of 0/1,
index 0 = bit 0 (the LSB of the integer reading, the MSB of the first byte in the bit-stream
reading).  Shares no code with crysp.bits."""

def from_int(v, size=None):
    bits = []
    while v:
        bits.append(v & 1); v >>= 1
    return resize(bits, size)

def resize(bits, size):
    if size is None:
        return list(bits)
    return (list(bits) + [0] * size)[:size]

def from_bytes(s, bitorder=-1, size=None):
    """README / Bits.load conventions.
    -1: bit stream (bit 0 = MSB of byte 0).  +1: little-endian integer.  0: big-endian integer.
    k>1: little-endian sequence of k-byte big-endian groups.  negative: every byte bit-reversed first."""
    n = len(s)
    rev = bitorder < 0
    k = abs(bitorder) if bitorder != 0 else n
    if n and n % k:
        raise ValueError('length not a multiple of bitorder')
    bits = []
    for g in range(0, n, k or 1):
        grp = s[g:g + k]
        for byte in reversed(grp):                     # big-endian inside the group: last byte lowest
            for j in range(8):
                bits.append((byte >> (7 - j)) & 1 if rev else (byte >> j) & 1)
    return resize(bits, size)

def value(bits):
    return sum(b << i for i, b in enumerate(bits))

def signed(bits):
    v = value(bits)
    return v - (1 << len(bits)) if bits and bits[-1] else v

def to_str(bits):
    return ''.join(str(b) for b in bits)

def to_bytes_stream(bits):
    out = bytearray((len(bits) + 7) // 8)
    for i, b in enumerate(bits):
        if b:
            out[i >> 3] |= 0x80 >> (i & 7)
    return bytes(out)

def to_packed(bits, big=False):
    n = (len(bits) + 7) // 8
    b = value(bits).to_bytes(n, 'little')
    return b[::-1] if big else b
