"""AES (FIPS 197) on plain ints; the S-box is computed from GF(2^8) inversion and the affine map,
multiplication is shift-and-reduce modulo 0x11B -- no table shared with crysp."""
def xtime(a):
    a <<= 1
    return a ^ 0x11B if a & 0x100 else a
def gmul(a, b):
    r = 0
    while b:
        if b & 1: r ^= a
        a = xtime(a); b >>= 1
    return r
def _inv(a):
    if a == 0: return 0
    r = 1
    for _ in range(254):            # a^254 = a^-1
        r = gmul(r, a)
    return r
def _affine(x):
    r = 0
    for i in range(8):
        b = ((x >> i) ^ (x >> ((i + 4) % 8)) ^ (x >> ((i + 5) % 8)) ^ (x >> ((i + 6) % 8)) ^ (x >> ((i + 7) % 8)) ^ (0x63 >> i)) & 1
        r |= b << i
    return r
SBOX = [_affine(_inv(x)) for x in range(256)]
INV = [0] * 256
for _i, _v in enumerate(SBOX): INV[_v] = _i

def expand(key):
    Nk = len(key) // 4; Nr = Nk + 6
    w = [list(key[4 * i:4 * i + 4]) for i in range(Nk)]
    rc = 1
    for i in range(Nk, 4 * (Nr + 1)):
        t = list(w[i - 1])
        if i % Nk == 0:
            t = [SBOX[b] for b in t[1:] + t[:1]]; t[0] ^= rc; rc = xtime(rc)
        elif Nk > 6 and i % Nk == 4:
            t = [SBOX[b] for b in t]
        w.append([a ^ b for a, b in zip(w[i - Nk], t)])
    return [sum(w[4 * r:4 * r + 4], []) for r in range(Nr + 1)], Nr

def shift(s):  return [s[(i + 4 * (i % 4)) % 16] for i in range(16)]
def ishift(s): return [s[(i - 4 * (i % 4)) % 16] for i in range(16)]
def mix(s, M):
    o = []
    for c in range(4):
        col = s[4 * c:4 * c + 4]
        o += [gmul(col[0], M[(0 - r) % 4]) ^ gmul(col[1], M[(1 - r) % 4]) ^ gmul(col[2], M[(2 - r) % 4]) ^ gmul(col[3], M[(3 - r) % 4]) for r in range(4)]
    return o
MC = [2, 3, 1, 1]; IMC = [14, 11, 13, 9]

def enc(key, blk):
    rk, Nr = expand(key)
    s = [a ^ b for a, b in zip(blk, rk[0])]
    for r in range(1, Nr):
        s = mix(shift([SBOX[b] for b in s]), MC)
        s = [a ^ b for a, b in zip(s, rk[r])]
    s = shift([SBOX[b] for b in s])
    return bytes(a ^ b for a, b in zip(s, rk[Nr]))

def dec(key, blk):
    rk, Nr = expand(key)
    s = [a ^ b for a, b in zip(blk, rk[Nr])]
    for r in range(Nr - 1, 0, -1):
        s = [INV[b] for b in ishift(s)]
        s = mix([a ^ b for a, b in zip(s, rk[r])], IMC)
    s = [INV[b] for b in ishift(s)]
    return bytes(a ^ b for a, b in zip(s, rk[0]))

def selftest():
    k = bytes(range(16)); p = bytes.fromhex('00112233445566778899aabbccddeeff')
    assert enc(k, p).hex() == '69c4e0d86a7b0430d8cdb78070b4c55a' and dec(k, enc(k, p)) == p
    assert enc(bytes(range(24)), p).hex() == 'dda97ca4864cdfe06eaf70a0ec0d7191'
    assert enc(bytes(range(32)), p).hex() == '8ea2b7ca516745bfeafc49904b496089'
    assert SBOX[0] == 0x63 and SBOX[0x53] == 0xed and gmul(0x57, 0x83) == 0xc1
    return 'AES reference reproduces FIPS-197 appendix C'
