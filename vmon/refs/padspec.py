"""Padding schemes as bit-list specifications: spec(scheme, params, message bits) -> padded bytes, pad bit count.
Bit lists are in stream order (bit 0 = MSB of byte 0)."""
from vmon.core import bits_msb, bits2bytes_msb

def int_bits(v, n):            # big-endian n-bit integer as a bit list
    return [(v >> (n - 1 - i)) & 1 for i in range(n)]

def spec(scheme, B, bits, w=None, hsize=None):
    """returns (padded byte string, number of pad bits)"""
    L = len(bits)
    if scheme == 'none':
        return bits2bytes_msb(bits), 0
    if scheme == 'zero':
        q = B if L == 0 else (-L) % B
        return bits2bytes_msb(bits + [0] * q), q
    if scheme == 'bit':                                   # ISO/IEC 7816-4, ISO 9797-1 method 2
        q = B - L % B
        return bits2bytes_msb(bits + [1] + [0] * (q - 1)), q
    if scheme in ('pkcs7', 'x923'):
        assert L % 8 == 0
        Bb = B // 8
        q = Bb - (L // 8) % Bb
        pad = bytes([q]) * q if scheme == 'pkcs7' else bytes(q - 1) + bytes([q])
        return bits2bytes_msb(bits) + pad, 8 * q
    if scheme in ('md', 'sha'):
        N = (B - 1 - 2 * w - L) % B
        body = bits2bytes_msb(bits + [1] + [0] * N)
        ln = (L % (1 << (2 * w))).to_bytes(w // 4, 'little' if scheme == 'md' else 'big')
        return body + ln, 1 + N + 2 * w
    if scheme == 'blake':
        w = 64 if hsize > 256 else 32
        B = 1024 if hsize > 256 else 512
        N = (B - 2 - 2 * w - L) % B
        v = 1 if hsize in (256, 512) else 0
        body = bits2bytes_msb(bits + [1] + [0] * N + [v])
        return body + (L % (1 << (2 * w))).to_bytes(w // 4, 'big'), 2 + N + 2 * w
    raise ValueError(scheme)

def selftest():
    assert spec('bit', 64, bits_msb(b'abc', 24))[0] == b'abc\x80\0\0\0\0'
    assert spec('bit', 32, bits_msb(b'abcd', 32))[0] == b'abcd\x80\0\0\0'
    assert spec('pkcs7', 64, bits_msb(b'abc', 24))[0] == b'abc' + b'\5' * 5 and spec('pkcs7', 32, bits_msb(b'abcd', 32))[0] == b'abcd\4\4\4\4'
    assert spec('x923', 64, bits_msb(b'abc', 24))[0] == b'abc\0\0\0\0\5'
    assert spec('zero', 64, bits_msb(b'abc', 24)) == (b'abc\0\0\0\0\0', 40) and spec('zero', 32, bits_msb(b'abcd', 32)) == (b'abcd', 0)
    p = spec('sha', 512, bits_msb(b'abc', 24), w=32)[0]
    assert len(p) == 64 and p[:4] == b'abc\x80' and p[-8:] == (24).to_bytes(8, 'big')
    p = spec('md', 512, bits_msb(b'a' * 56, 448), w=32)[0]
    assert len(p) == 128 and p[56] == 0x80 and p[-8:] == (448).to_bytes(8, 'little')
    p = spec('blake', None, bits_msb(b'\0', 8), hsize=256)[0]
    assert len(p) == 64 and p[1] == 0x80 and p[55] == 0x01 and p[-8:] == (8).to_bytes(8, 'big')
    p = spec('blake', None, bits_msb(bytes(55), 440), hsize=256)[0]
    assert len(p) == 64 and p[55] == 0x81
    p = spec('blake', None, bits_msb(bytes(111), 888), hsize=384)[0]
    assert len(p) == 128 and p[111] == 0x80
    return 'padding specifications ok'
