"""Independent int/bit-list MD6 reference (Rivest et al., "The MD6 hash function", 2008): PAR, SEQ and hybrid modes, keys,
round override, bit-granular messages; digests with d mod 8 != 0 are left-justified (reference trim_hashval)."""
M64=(1<<64)-1
Q=[0x7311c2812425cfa0,0x6432286434aac8e7,0xb60450e9ef68b7c1,0xe8fb23908d9f06f1,0xdd2e76cba691e5bf,0x0cd0d63b2c30bc41,0x1f8ccf6823058f8a,0x54e5ed5b88e3775d,0x4ad12aae0a6d6031,0x3e7f16bb88222e0d,0x8af8671d3fb50c2c,0x995ad1178bd25c31,0xc878c1dd04c4b633,0x3b72066c7a1552ac,0x0d6f3522631effcb]
RS=[10,5,13,10,11,12,2,7,14,15,7,13,11,7,6,12]; LS=[11,24,9,16,15,9,27,15,6,2,29,8,15,5,31,9]
def f(N,r):
    A=list(N); S=0x0123456789abcdef
    for j in range(r):
        for s in range(16):
            i=len(A)
            x=S^A[i-89]^A[i-17]^(A[i-18]&A[i-21])^(A[i-31]&A[i-67])
            x^=x>>RS[s]; x=(x^(x<<LS[s]))&M64
            A.append(x)
        S=(((S<<1)|(S>>63))&M64)^(S&0x7311c2812425cfa0)
    return A[-16:]
def bits_of(msg,L): return [(msg[i//8]>>(7-i%8))&1 for i in range(L)]
def words_of(bits): return [int(''.join(map(str,bits[i:i+64])),2) for i in range(0,len(bits),64)]
def bits_of_words(ws): return [ (w>>(63-k))&1 for w in ws for k in range(64)]
def md6(d,msg,bitlen=None,key=b'',L=64,r=None):
    if r is None:
        r=40+d//4
        if key: r=max(80,r)
    keylen=len(key); K=[int.from_bytes(key.ljust(64,b'\0')[i:i+8],'big') for i in range(0,64,8)]
    if bitlen is None: bitlen=len(msg)*8
    M=bits_of(msg,bitlen)
    def V(z,p): return (r<<48)|(L<<40)|(z<<36)|(p<<20)|(keylen<<12)|d
    def PAR(M,l):
        n=max(1,-(-len(M)//4096)); out=[]
        for i in range(n):
            blk=M[i*4096:(i+1)*4096]; p=4096-len(blk); blk=blk+[0]*p
            z=1 if n==1 else 0
            out+=f(Q+K+[(l<<56)+i,V(z,p)]+words_of(blk),r)
        return bits_of_words(out)
    def SEQ(M,l):
        n=max(1,-(-len(M)//3072)); C=[0]*16
        for i in range(n):
            blk=M[i*3072:(i+1)*3072]; p=3072-len(blk); blk=blk+[0]*p
            z=1 if i==n-1 else 0
            C=f(Q+K+[(l<<56)+i,V(z,p)]+C+words_of(blk),r)
        return bits_of_words(C)
    l=0
    while True:
        l+=1
        if l==L+1: C=SEQ(M,l); break
        M=PAR(M,l)
        if len(M)==1024: C=M; break
    out=C[-d:]
    out=out+[0]*((-d)%8)
    return bytes(int(''.join(map(str,out[i:i+8])),2) for i in range(0,len(out),8))

def selftest():
    assert md6(256,b'abc',r=5).hex()=="8854c14dc284f840ed71ad7ba542855ce189633e48c797a55121a746be48cec8"
    m=bytes.fromhex("11223344556677")*86; m=m[:595]+bytes.fromhex("1122334455"); assert len(m)==600
    assert md6(224,m,key=b'abcde12345',r=5).hex()=="894cf0598ad3288ed4bb5ac5df23eba0ac388a11b7ed2e3dd5ec5131"
    m=bytes.fromhex("11223344556677")*114+b"\x11\x22"; assert len(m)==800
    assert md6(256,m,L=0).hex()=="4e78ab5ec8926a3db0dcfa09ed48de6c33a7399e70f01ebfc02abb52767594e2"
    assert md6(256,b'abc').hex()=="230637d4e6845cf0d092b558e87625f03881dd53a7439da34cf3b94ed0d8b2c5"
    assert md6(512,b'').hex().startswith("6b7f33821a2c060ecdd81aefddea2fd3c4720270e18654f4cb08ece49ccb469f")
    return 'MD6 reference reproduces the three examples of the MD6 report, md6-256("abc") and md6-512("")'
if __name__=='__main__': print(selftest())
