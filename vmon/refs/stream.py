"""Salsa20 (Bernstein, 'Salsa20 specification'), ChaCha (64-bit nonce / 64-bit block counter) and RC4 on plain ints."""
import struct
M = 0xffffffff
def rl(x, n): return ((x << n) | (x >> (32 - n))) & M

def salsa_core(x, rounds=20):
    z = list(x)
    def qr(a, b, c, d):
        z[b] ^= rl((z[a] + z[d]) & M, 7); z[c] ^= rl((z[b] + z[a]) & M, 9)
        z[d] ^= rl((z[c] + z[b]) & M, 13); z[a] ^= rl((z[d] + z[c]) & M, 18)
    for _ in range(rounds // 2):
        qr(0, 4, 8, 12); qr(5, 9, 13, 1); qr(10, 14, 2, 6); qr(15, 3, 7, 11)      # columnround
        qr(0, 1, 2, 3); qr(5, 6, 7, 4); qr(10, 11, 8, 9); qr(15, 12, 13, 14)      # rowround
    return [(a + b) & M for a, b in zip(x, z)]

def salsa_hash(b64, rounds=20):
    return struct.pack('<16L', *salsa_core(struct.unpack('<16L', b64), rounds))

def _consts(key):
    c = b'expand 32-byte k' if len(key) == 32 else b'expand 16-byte k'
    k = key if len(key) == 32 else key + key
    return struct.unpack('<4L', c), struct.unpack('<8L', k)

def salsa_block(key, nonce, ctr, rounds=20):
    c, k = _consts(key)
    n = struct.unpack('<2L', nonce)
    x = [c[0], k[0], k[1], k[2], k[3], c[1], n[0], n[1], ctr & M, (ctr >> 32) & M, c[2], k[4], k[5], k[6], k[7], c[3]]
    return struct.pack('<16L', *salsa_core(x, rounds))

def chacha_block(key, nonce, ctr, rounds=20):
    c, k = _consts(key)
    n = struct.unpack('<2L', nonce)
    x = list(c) + list(k) + [ctr & M, (ctr >> 32) & M, n[0], n[1]]
    z = list(x)
    def qr(a, b, c_, d):
        z[a] = (z[a] + z[b]) & M; z[d] = rl(z[d] ^ z[a], 16); z[c_] = (z[c_] + z[d]) & M; z[b] = rl(z[b] ^ z[c_], 12)
        z[a] = (z[a] + z[b]) & M; z[d] = rl(z[d] ^ z[a], 8); z[c_] = (z[c_] + z[d]) & M; z[b] = rl(z[b] ^ z[c_], 7)
    for _ in range(rounds // 2):
        qr(0, 4, 8, 12); qr(1, 5, 9, 13); qr(2, 6, 10, 14); qr(3, 7, 11, 15)
        qr(0, 5, 10, 15); qr(1, 6, 11, 12); qr(2, 7, 8, 13); qr(3, 4, 9, 14)
    return struct.pack('<16L', *[(a + b) & M for a, b in zip(x, z)])

def stream(blockf, key, nonce, n, rounds=20, start=0):
    out = b''
    i = start
    while len(out) < n:
        out += blockf(key, nonce, i % (1 << 64), rounds); i += 1
    return out[:n]

def rc4(key, n):
    S = list(range(256)); j = 0
    for i in range(256):
        j = (j + S[i] + key[i % len(key)]) & 255; S[i], S[j] = S[j], S[i]
    i = j = 0; out = bytearray()
    for _ in range(n):
        i = (i + 1) & 255; j = (j + S[i]) & 255; S[i], S[j] = S[j], S[i]
        out.append(S[(S[i] + S[j]) & 255])
    return bytes(out)

def selftest():
    # Salsa20 specification section 8 example and the section 9 expansion examples
    x = bytes([211,159,13,115,76,55,82,183,3,117,222,37,191,187,234,136,49,237,179,48,1,106,178,219,175,199,166,48,86,16,179,207,
               31,240,32,63,15,83,93,161,116,147,48,113,238,55,204,36,79,201,235,79,3,81,156,47,203,26,244,243,88,118,104,54])
    h = salsa_hash(x)
    assert list(h[:4]) == [109, 42, 178, 168] and list(h[-3:]) == [19, 48, 202]
    k0 = bytes(range(1, 17)); k1 = bytes(range(201, 217)); n = bytes(range(101, 117))
    b = salsa_block(k0 + k1, n[:8], int.from_bytes(n[8:], 'little'))
    assert list(b[:5]) == [69, 37, 68, 39, 41] and list(b[-5:]) == [236, 234, 103, 246, 74]
    b = salsa_block(k0, n[:8], int.from_bytes(n[8:], 'little'))
    assert list(b[:5]) == [39, 173, 46, 248, 30] and list(b[-5:]) == [181, 104, 182, 177, 193]
    assert chacha_block(bytes(32), bytes(8), 0).hex().startswith('76b8e0ada0f13d90405d6ae55386bd28')
    assert chacha_block(bytes(16), bytes(8), 0, 8).hex().startswith('e28a5fa4a67f8c5defed3e6fb7303486')
    assert bytes(a ^ b for a, b in zip(rc4(b'Key', 9), b'Plaintext')).hex().upper() == 'BBF316E8D940AF0AD3'
    assert rc4(bytes([1, 2, 3, 4, 5]), 16).hex() == 'b2396305f03dc027ccc3524a0a1118a8'      # RFC 6229
    msg = 'Salsa20/ChaCha/RC4 references reproduce the specification examples, the ChaCha20 zero-key block and RFC 6229'
    try:
        from vmon.refs import ossl
        import random
        r = random.Random(4)
        for _ in range(10):
            k = r.randbytes(32); nn = r.randbytes(8); m = r.randbytes(150); c0 = r.getrandbits(31)
            ks = stream(chacha_block, k, nn, 150, 20, c0)
            assert ossl.cipher('ChaCha20', k, m, c0.to_bytes(8, 'little') + nn) == bytes(a ^ b for a, b in zip(m, ks))
            kk = r.randbytes(r.randrange(5, 33))
            assert ossl.cipher('RC4', kk, m) == bytes(a ^ b for a, b in zip(m, rc4(kk, 150)))
        msg += '; ChaCha20 and RC4 agree with libcrypto on 10 random cases'
    except (OSError, ValueError, AttributeError) as e:
        msg += '; libcrypto cross-check unavailable (%s)' % type(e).__name__
    return msg
if __name__ == '__main__': print(selftest())
