"""C06  Salsa20, ChaCha, RC4: specified keystream, length-preserving XOR streams."""
from vmon.core import call, is_exc, pattern
from vmon.refs import stream as rs

ID = 'C06'
RULE = ('class = (cipher, key bits 128/256, rounds in {2,4,..,20}, |M| mod 64, floor(|M|/64) in 0..4, nonce class, start block class); RC4 key '
        'lengths 1..256 and every split of a message into 1..5 pieces (incl. empty pieces); start blocks around 2^32 and 2^64 through hook H1 '
        'so that the counter-word carry is observed; Salsa20 core on random and pattern inputs; oracle = own Salsa20/ChaCha/RC4 references '
        '(specification examples, libcrypto ChaCha20/RC4 cross-check)')
ASSUMPTIONS = ['own Salsa20/ChaCha/RC4 references (self-tested)', 'libcrypto ChaCha20/RC4 as cross-check at start',
               'hook H1 only changes the first block index (guard BDCHT_CRYSP_VERIF)']
ANCHORS = [('salsa20.py', 'Salsa20.keystream'), ('salsa20.py', 'Salsa20.enc'), ('salsa20.py', 'Salsa20.quarterround'), ('salsa20.py', 'Salsa20.rowround'),
           ('salsa20.py', 'Salsa20.columnround'), ('salsa20.py', 'Salsa20.core'), ('salsa20.py', 'Salsa20.hash'), ('chacha.py', 'Chacha.keystream'),
           ('chacha.py', 'Chacha.quarterround'), ('chacha.py', 'Chacha.rowround'), ('rc4.py', 'RC4.ksa'), ('rc4.py', 'RC4.keystream'), ('rc4.py', 'RC4.enc')]
REQUIRED = ['siblings:enc==M^KS', 'enc==M^KS', 'length', 'dec(enc)==M', 'prefix', 'counter-carry:enc==M^KS', 'rc4:enc==M^KS', 'rc4:pieces==stream', 'salsa:hash==core']
NSHARDS = 14
SAN = {'quick': (2, 40), 'thorough': (2, 40)}

def selftest():
    return rs.selftest()

def cases(tier, rng):
    reps = 1 if tier == 'quick' else 8
    for rep in range(reps):
        for ciph in ('salsa20', 'chacha'):
            for kb in (128, 256):
                for rounds in range(2, 21, 2):
                    lens = [0, 1, 63, 64, 65, 130] if rounds != 20 and tier == 'quick' else [0, 1, 2, 31, 32, 33, 63, 64, 65, 100, 127, 128, 129, 191, 192, 193, 256, 257, 320]
                    for n in lens:
                        yield {'k': 'enc', 'c': ciph, 'kb': kb, 'rounds': rounds, 'n': n, 'nc': ['rand', 'zero', 'ones'][(n + rounds) % 3], 'kp': ['rand', 'zero', 'ones', 'walk'][(n // 3 + rounds) % 4]}
                if rep == 0:
                    for n in (4095, 4096, 4099) + ((65539,) if kb == 256 and tier == 'thorough' else ()):          # long messages
                        yield {'k': 'enc', 'c': ciph, 'kb': kb, 'rounds': [20, 12][n % 2], 'n': n, 'nc': 'rand', 'kp': 'rand'}
                for start in ((1 << 32) - 2, (1 << 32) - 1, 1 << 32, (1 << 32) + 1, (1 << 64) - 2, (1 << 64) - 1, 1 << 33, (1 << 40) + 5, 0xffffffff00000000 - 1):
                    for n in (64, 130, 200):
                        if start + -(-n // 64) > (1 << 64):
                            continue          # the specification defines 2^64 blocks only; nothing is demanded beyond the last one
                        yield {'k': 'carry', 'c': ciph, 'kb': kb, 'rounds': [20, 8, 12][n % 3], 'n': n, 'start': start}
        for kl in (list(range(1, 257)) if tier == 'thorough' else [1, 2, 3, 5, 8, 15, 16, 17, 31, 32, 33, 40, 64, 100, 128, 200, 255, 256]):
            for n in (0, 1, 16, 255, 256, 257, 600):
                yield {'k': 'rc4', 'kl': kl, 'n': n, 'kp': ['rand', 'zero', 'ones', 'asc'][(kl + n) % 4]}
        if rep == 0:
            for n in (4099, 65539):
                yield {'k': 'rc4', 'kl': 16, 'n': n, 'kp': 'rand'}
        for j in range(60 if tier == 'quick' else 300):
            yield {'k': 'rc4-split', 'kl': [1, 5, 16, 256][j % 4], 'n': [0, 1, 7, 40, 300][j % 5], 'pieces': 1 + j % 5, 'empty': j % 3 == 0}
        for j in range(10 if tier == 'quick' else 80):
            yield {'k': 'siblings', 'fam': ['chacha', 'salsa20', 'mixed', 'rc4'][j % 4], 'j': j}
        for pat in ('rand', 'zero', 'ones', 'walk', 'x80', 'asc'):
            for rounds in (20, 2, 8, 12):
                yield {'k': 'hash', 'pat': pat, 'rounds': rounds}

def mk(ciph, key, rounds):
    from crysp.bits import Bits
    from crysp.salsa20 import Salsa20
    from crysp.chacha import Chacha
    K = Bits(key, bitorder=1)
    return (Salsa20 if ciph == 'salsa20' else Chacha)(K, rounds)

def run(case, ctx, rng):
    from crysp.bits import Bits
    k = case['k']
    if k in ('enc', 'carry'):
        ciph, kb, rounds, n = case['c'], case['kb'], case['rounds'], case['n']
        key = pattern(rng, kb // 8, case.get('kp', 'rand'))
        nonce = pattern(rng, 8, case.get('nc', 'rand'))
        M = rng.randbytes(n)
        start = case.get('start', 0)
        blockf = rs.salsa_block if ciph == 'salsa20' else rs.chacha_block
        KS = rs.stream(blockf, key, nonce, n, rounds, start)
        want = bytes(a ^ b for a, b in zip(M, KS))
        v = Bits(nonce, bitorder=1)
        det = dict(cipher=ciph, key=key, nonce=nonce, rounds=rounds, n=n, start=start)
        def new():
            o = mk(ciph, key, rounds)
            if k == 'carry': o._verif_block0 = start
            return o
        if k == 'enc':
            ctx.cls((ciph, kb, rounds, n % 64, min(n // 64, 4), case['nc'], case['kp']))
            C = call(lambda: new().enc(v, M))
            ctx.eq('enc==M^KS', C, want, **det)
            if not is_exc(C):
                ctx.eq('length', len(C), n, **det)
                ctx.eq('dec(enc)==M', call(lambda: new().dec(v, C)), M, **det)
                o = new()
                ctx.eq('enc==M^KS', call(lambda: (o.enc(v, M), o.enc(v, M))[1]), want, second_call=True, **det)
                o = new()
                for ln in (n // 3, n, min(5, n), n, max(0, n - 1)):
                    ctx.eq('same-object:enc==M^KS', call(lambda: o.enc(v, M[:ln])), want[:ln], length=ln, **det)
                o = new()
                X = rng.randbytes(64)
                hv = call(lambda: bytes(o.hash(X)))
                if ciph == 'salsa20':
                    ctx.eq('salsa:hash==core', hv, rs.salsa_hash(X), keyed_object=True, **det)
                ctx.eq('same-object:enc==M^KS', call(lambda: o.enc(v, M)), want, after='hash(X) on the keyed object', **det)
                for cut in sorted({0, 1, n // 2, max(0, n - 1), 64 if n > 64 else 0}):
                    ctx.eq('prefix', call(lambda: new().enc(v, M[:cut])), want[:cut], cut=cut, **det)
                # the keystream generator used directly: an older, partly consumed generator of the same object is dropped while a newer
                # one is in use (each block is computed from the nonce and its own block index)
                if n >= 128 and hasattr(new(), 'keystream'):
                    def two_generators():
                        o = new()
                        g1 = o.keystream(v); next(g1)
                        g2 = o.keystream(v); b0 = next(g2)
                        g1.close(); del g1
                        b1 = next(g2)
                        return b''.join(bytes(x.split(8).ival) if hasattr(x, 'split') else bytes(x) for x in (b0, b1))
                    ctx.eq('enc==M^KS', call(two_generators), KS[:128], generators='an older generator closed while a newer one is running', **det)
                # caller-owned buffers: the message as a bytearray, the nonce as a Bits the caller keeps; neither is changed,
                # and the nonce object can be reused for the next message
                from vmon.core import mutable_arg
                o = new(); vsnap = (v.ival, v.size)
                mutable_arg(ctx, 'enc==M^KS', (lambda buf: o.enc(v, buf)), M, want, must_accept=False, one_object=True, **det)      # (Poly takes bytes only)
                ctx.eq('enc==M^KS', (v.ival, v.size), vsnap, arg='the caller\'s nonce object is left unchanged', **det)
                # one nonce object stepped in place by the caller between messages (a message counter kept in a Bits)
                vv = Bits(nonce, bitorder=1); o = new()
                first = call(lambda: o.enc(vv, M))
                n2 = bytes(rng.randbytes(8)) if n % 2 else (int.from_bytes(nonce, 'little') + 1 & (1 << 64) - 1).to_bytes(8, 'little')
                vv.ival = Bits(n2, bitorder=1).ival
                KS2 = rs.stream(blockf, key, n2, n, rounds, start)
                ctx.eq('enc==M^KS', first, want, nonce_object='before it is stepped', **det)
                ctx.eq('enc==M^KS', call(lambda: o.enc(vv, M)), bytes(a ^ b for a, b in zip(M, KS2)), nonce_object='stepped in place by the caller', nonce2=n2, **det)
        else:
            import crysp.salsa20 as S20
            if not getattr(S20, '_verif_on', False):
                ctx.notes['hook H1 absent: counter carry not observable'] += 1
                return
            ctx.cls((ciph, kb, 'carry', start.bit_length(), start & 3, n))
            ctx.state('start-block', start)
            C = call(lambda: new().enc(v, M))
            ctx.eq('counter-carry:enc==M^KS', C, want, **det)
    elif k == 'rc4':
        from crysp.rc4 import RC4
        key = pattern(rng, case['kl'], case['kp']); M = rng.randbytes(case['n'])
        if case['kp'] == 'zero' and case['kl'] > 0:
            key = bytes(case['kl'])
        ctx.cls(('rc4', case['kl'], case['n'], case['kp']))
        want = bytes(a ^ b for a, b in zip(M, rs.rc4(key, len(M))))
        C = call(lambda: RC4(key).enc(M))
        ctx.eq('rc4:enc==M^KS', C, want, key=key, M=M)
        if not is_exc(C):
            ctx.eq('length', len(C), len(M), cipher='rc4', key=key)
            ctx.eq('dec(enc)==M', call(lambda: RC4(key).dec(C)), M, cipher='rc4', key=key)
            ctx.eq('rc4:keystream(n)', call(lambda: bytes(RC4(key).keystream(len(M)).ival)), rs.rc4(key, len(M)), key=key)
            # the public key-scheduling method re-run on a used object restarts the specified stream; a new key through the
            # public K re-keys it.  (Skipped when a refactoring has made ksa private: only what exists is driven.)
            o = RC4(key); call(o.enc, M + b'x')
            if hasattr(o, 'ksa') and hasattr(o, 'K'):
                call(o.ksa)
                ctx.eq('rc4:enc==M^KS', call(o.enc, M), want, key=key, M=M, after='ksa() re-run on a used object')
                from crysp.poly import Poly
                key2 = rng.randbytes(1 + case['kl'] % 16)
                o.K = Poly(key2); call(o.ksa)
                ctx.eq('rc4:enc==M^KS', call(o.enc, M), bytes(a ^ b for a, b in zip(M, rs.rc4(key2, len(M)))), key=key2, M=M, after='re-keyed through K and ksa()')
            kb = bytearray(key); o2 = call(RC4, kb); Mb = bytearray(M)
            if not is_exc(o2) and not is_exc(call(lambda: RC4(key).enc(Mb))):       # only where the library accepts these buffer types at all
                first = call(lambda: bytes(o2.enc(Mb)))
                ctx.eq('rc4:enc==M^KS', first, want, key=key, M=M, buffers='bytearray key and message')
                ctx.eq('rc4:enc==M^KS', (bytes(kb), bytes(Mb)), (key, M), buffers='caller buffers left unchanged')
                for i in range(len(kb)): kb[i] = 0
                ks = rs.rc4(key, 2 * len(M))
                ctx.eq('rc4:enc==M^KS', call(lambda: bytes(o2.enc(M))), bytes(a ^ b for a, b in zip(M, ks[len(M):])), key=key, M=M, buffers='key buffer wiped by the caller after construction')
    elif k == 'rc4-split':
        from crysp.rc4 import RC4
        key = rng.randbytes(case['kl']); M = rng.randbytes(case['n'])
        n = len(M)
        cuts = sorted(rng.randrange(0, n + 1) for _ in range(case['pieces'] - 1))
        if case['empty'] and cuts:
            cuts[0] = 0; cuts[-1] = cuts[-1] if len(cuts) > 1 else 0
        pts = [0] + cuts + [n]
        ctx.cls(('rc4-split', case['kl'], min(n, 41), case['pieces'], case['empty']))
        want = bytes(a ^ b for a, b in zip(M, rs.rc4(key, n)))
        def run_():
            o = RC4(key)
            out = []
            for i in range(len(pts) - 1):
                if case['empty'] and i == 1:
                    call(o.enc, 'text, not bytes')          # a refused piece must not advance the stream
                    call(o.enc, None)
                out.append(o.enc(M[pts[i]:pts[i + 1]]))
            return b''.join(out)
        got = call(run_)
        ctx.eq('rc4:pieces==stream', got, want, key=key, M=M, cuts=cuts)
        ctx.eq('rc4:pieces==oneshot', got, call(lambda: RC4(key).enc(M)), key=key, cuts=cuts)
        # decryption is the same continuous stream: the ciphertext decrypted in pieces, and enc / dec mixed on one object
        def run_dec(mixed):
            o = RC4(key)
            out = []
            for i in range(len(pts) - 1):
                f = o.enc if (mixed and i % 2) else o.dec
                out.append(f(want[pts[i]:pts[i + 1]]))
            return b''.join(out)
        ctx.eq('rc4:pieces==stream', call(run_dec, False), M, key=key, cuts=cuts, direction='dec in pieces')
        ctx.eq('rc4:pieces==stream', call(run_dec, True), M, key=key, cuts=cuts, direction='dec and enc alternating on one object')
    elif k == 'siblings':
        from vmon.core import siblings
        from crysp.rc4 import RC4
        fam = case['fam']
        ctx.cls(('siblings', fam, case['j'] % 3))
        specs = []
        if fam == 'rc4':
            # independent continuous streams, interleaved piece by piece
            for t in range(3):
                key = rng.randbytes(rng.choice([1, 5, 16, 40])); M = rng.randbytes(90)
                ks = rs.rc4(key, 90); want = bytes(a ^ b for a, b in zip(M, ks))
                specs.append(('RC4#%d' % t, (lambda key=key: RC4(key)), [('enc(piece %d)' % q, None, None) for q in range(3)]))
                specs[-1] = (specs[-1][0], specs[-1][1], M, want)
            objs = [call(sp[1]) for sp in specs]
            pos = [0, 0, 0]
            for step in range(9):
                i = rng.randrange(3)
                if pos[i] >= 90: continue
                n = rng.choice([0, 1, 7, 30])
                got = call(objs[i].enc, specs[i][2][pos[i]:pos[i] + n])
                ctx.eq('siblings:enc==M^KS', got, specs[i][3][pos[i]:pos[i] + n], sibling=specs[i][0], pos=pos[i], n=n)
                pos[i] += n
            return
        for t in range(3):
            ciph = fam if fam != 'mixed' else ['salsa20', 'chacha'][t % 2]
            kb = [128, 256][(t + case['j']) % 2]; rounds = [8, 12, 20][(t + case['j']) % 3]
            key = rng.randbytes(kb // 8); nonce = rng.randbytes(8); M = rng.randbytes(rng.choice([10, 64, 100]))
            blockf = rs.salsa_block if ciph == 'salsa20' else rs.chacha_block
            want = bytes(a ^ b for a, b in zip(M, rs.stream(blockf, key, nonce, len(M), rounds)))
            v = Bits(nonce, bitorder=1)
            specs.append(('%s-%d-r%d#%d' % (ciph, kb, rounds, t), (lambda ciph=ciph, key=key, rounds=rounds: mk(ciph, key, rounds)),
                          [('enc(v,M)', (lambda o, v=v, M=M: o.enc(v, M)), want), ('dec(v,C)', (lambda o, v=v, C=want: o.dec(v, C)), M)]))
        siblings(ctx, rng, 'siblings:enc==M^KS', specs, late=specs.pop(), family=fam)
    elif k == 'hash':
        from crysp.salsa20 import Salsa20
        X = pattern(rng, 64, case['pat'])
        ctx.cls(('hash', case['pat'], case['rounds']))
        if case['rounds'] == 20:
            ctx.eq('salsa:hash==core', call(lambda: bytes(Salsa20().hash(X))), rs.salsa_hash(X), X=X)
        else:
            from crysp.poly import Poly
            from crysp.bits import pack
            import struct
            def core():
                P = Poly(list(struct.unpack('<16L', X)), size=32)
                return b''.join(pack(z) for z in Salsa20(rounds=case['rounds']).core(P, dround=case['rounds'] // 2))
            ctx.eq('salsa:core(rounds)==spec', call(core), rs.salsa_hash(X, case['rounds']), X=X, rounds=case['rounds'])

def classify(case, fail):
    return None
