"""C19  TLSH/Nilsimsa: well-formed reproducible digests, distances behave as distances."""
from vmon.core import call, is_exc, pattern
from vmon.refs import simhash as sh

ID = 'C19'
RULE = ('class = (configuration (3 bucket counts x 5 windows x 2 checksum lengths), length class {0,1,49,50,51,255,256,257,656,657,3199,3200,..}, '
        'force flag, data class {random, text-like, low-entropy, constant, two-symbol}); digest compared with a non-incremental model of '
        'the reference algorithm, reload/serialize round trip, distance laws on digest pairs in all argument forms; Nilsimsa: model, '
        'length, Hamming distance.  48 buckets with 18..24 non-zero buckets is declared unspecified and not compared')
ASSUMPTIONS = ['own TLSH model (paper + reference semantics; reproduces the published vector) and Nilsimsa 0.2.4 model (tran table prefix, two published digests)',
               'TLSH with 48 buckets and 18..24 non-zero buckets: unspecified, not judged']
ANCHORS = [('tlsh.py', 'TLSH.update'), ('tlsh.py', 'TLSH.triplet'), ('tlsh.py', 'TLSH.b_mapping'), ('tlsh.py', 'TLSH.final'), ('tlsh.py', 'TLSH.find_quartiles'),
           ('tlsh.py', 'TLSH.l_capturing'), ('tlsh.py', 'TLSH.digest'), ('tlsh.py', 'TLSH.from_hash'), ('tlsh.py', 'TLSH.__call__'), ('tlsh.py', 'distance'),
           ('nilsimsa.py', 'Nilsimsa.update'), ('nilsimsa.py', 'Nilsimsa.digest'), ('nilsimsa.py', 'Nilsimsa.tran3'), ('nilsimsa.py', 'Nilsimsa.maketran'),
           ('nilsimsa.py', 'distance')]
REQUIRED = ['tlsh:lvalue==model', 'siblings:digest==model', 'tlsh==model', 'tlsh:length', 'tlsh:none-not-exception', 'tlsh:reload-roundtrip', 'tlsh:distance-laws', 'nilsimsa==model',
            'nilsimsa:length', 'nilsimsa:distance==hamming']
NSHARDS = 14
SAN = {'quick': (0, 1), 'thorough': (1, 50)}

def selftest():
    return sh.selftest()

CFGS = [(b, w, c) for b in (48, 128, 256) for w in (4, 5, 6, 7, 8) for c in (1, 3)]
LENS = [0, 1, 49, 50, 51, 100, 255, 256, 257, 300, 656, 657, 1000, 3199, 3200, 5000]
KINDS = ['rand', 'text', 'low', 'const', 'two']

def data(rng, kind, n):
    if kind == 'rand': return rng.randbytes(n)
    if kind == 'text': return bytes(rng.choice(b'etaoin shrdlu,.ETAOIN\n') for _ in range(n))
    if kind == 'low': return bytes(rng.choice(b'ab') if rng.random() < .9 else rng.randrange(256) for _ in range(n))
    if kind == 'const': return b'a' * n
    return bytes(rng.choice(b'xy') for _ in range(n))

def cases(tier, rng):
    reps = 1 if tier == 'quick' else 10
    for rep in range(reps):
        for i, cfg in enumerate(CFGS):
            for j, n in enumerate(LENS):
                for kk, kind in enumerate(KINDS):
                    if tier == 'quick' and (i + j + kk + rep) % 2 and not (n in (0, 49, 50, 255, 256) and kind in ('rand', 'const')):
                        continue
                    yield {'k': 'tlsh', 'cfg': list(cfg), 'n': n, 'kind': kind, 'force': (i + j + kk) % 2 == 0}
            for j in range(3):
                yield {'k': 'tlsh-dist', 'cfg': list(cfg), 'j': j}
            for j in range(2 if tier == 'quick' else 12):
                yield {'k': 'tlsh-gate', 'cfg': list(cfg), 'j': j}
        for t in (None, 53, 0, 1, 11, 200, 255):
            for n in (0, 1, 2, 3, 4, 5, 6, 10, 50, 300, 2000):
                for kind in ('rand', 'text', 'const'):
                    yield {'k': 'nil', 'target': t, 'n': n, 'kind': kind}
        if rep == 0:
            for n in (4099, 65539, 200003):          # long inputs
                yield {'k': 'nil', 'target': None, 'n': n, 'kind': 'text'}
                yield {'k': 'tlsh', 'cfg': list(CFGS[n % len(CFGS)]), 'n': n, 'kind': 'text', 'force': False}
        for j in range(30):
            yield {'k': 'nil-dist', 'j': j}
        for lo in range(0, 301 if tier == 'quick' else 1201, 20):
            yield {'k': 'nil-lengths', 'lo': lo, 'hi': lo + 20, 'target': [None, 17, 200][(lo // 20 + rep) % 3]}
        if rep == 0:
            for lo in range(1, 200001 if tier == 'quick' else 2000001, 10000):
                yield {'k': 'lvalue', 'lo': lo, 'hi': lo + 10000}
        for j in range(12 if tier == 'quick' else 60):
            yield {'k': 'siblings', 'fam': ['nilsimsa', 'tlsh'][j % 2], 'j': j}

def run(case, ctx, rng):
    k = case['k']
    if k == 'tlsh':
        from crysp.tlsh import TLSH
        b, w, c = case['cfg']; n = case['n']; force = case['force']
        d = data(rng, case['kind'], n)
        lc = n if n in LENS else 'other'
        ctx.cls((b, w, c, lc, force, case['kind']))
        want = sh.tlsh(d, b, w, c, force)
        det = dict(cfg=case['cfg'], n=n, kind=case['kind'], force=force, data=d if n <= 64 else d[:32] + b'...')
        got = call(lambda: TLSH(b, w, c)(d, force))
        ctx.check('tlsh:none-not-exception', not is_exc(got), got, 'a digest or None', **det)
        if want == 'UNSPEC':
            ctx.notes['unspecified-48-bucket-gate'] += 1
            return
        ctx.eq('tlsh==model', got, want, **det)
        if n % 3 == 0:
            from vmon.core import mutable_arg
            ht = TLSH(b, w, c)
            mutable_arg(ctx, 'tlsh==model', (lambda buf: ht(buf, force)), d, want, one_object=True, **det)
        # the two-step forms of the same computation: update(data) then final with nothing more to add; final(data) alone
        def two_step(last):
            o = TLSH(b, w, c); o.update(d)
            return None if o.final(last, force) is None else o.digest().lsh_code
        def final_only():
            o = TLSH(b, w, c)
            return None if o.final(d, force) is None else o.digest().lsh_code
        if n % 2 == 0 or n < 60:
            ctx.eq('tlsh==model', call(two_step, b''), want, form="update(data); final(b'')", **det)
            ctx.eq('tlsh==model', call(two_step, None), want, form='update(data); final(None)', **det)
            ctx.eq('tlsh==model', call(final_only), want, form='final(data)', **det)
        if isinstance(got, bytes):
            ctx.eq('tlsh:length', len(got), c + 2 + b // 4, **det)
            # reload: same header fields and code, serializes back to the identical bytes
            def reload():
                o = TLSH(b, w, c); o.final(d, force)
                o.digest()
                r = TLSH(b, w, c).from_hash(got)
                return (r.digest().lsh_code, (bytes(r.checksum), r.Lvalue, r.q1_ratio, r.q2_ratio, bytes(r.tmp_code)),
                        (bytes(o.checksum), o.Lvalue, o.q1_ratio, o.q2_ratio, bytes(o.tmp_code)))
            rr = call(reload)
            ctx.check('tlsh:reload-roundtrip', not is_exc(rr) and rr[0] == got and rr[1] == rr[2], rr, (got, 'equal header fields'), **det)
            if not is_exc(rr):
                ctx.eq('tlsh:header==model', rr[2], sh.tlsh_header(want, c), **det)
    elif k == 'tlsh-gate':
        # inputs aimed at the bucket-population gate: periodic low-entropy data whose number of non-zero buckets is
        # within one of the threshold (buckets/2; 18 and 24 for 48 buckets), found by search with the model's bucket counts
        from crysp.tlsh import TLSH
        b, w, c = case['cfg']
        ctx.cls((b, w, c, 'gate'))
        targets = {b // 2 - 1, b // 2, b // 2 + 1} | ({17, 18, 24, 25} if b == 48 else set())
        found = {}
        for _ in range(400):
            if len(found) == len(targets):
                break
            p = rng.randrange(2, 64); a = rng.choice([2, 3, 4, 6, 16, 256]); n = rng.randrange(50, 320)
            unit = bytes(rng.randrange(a) * (255 // max(1, a - 1)) % 256 for _ in range(p))
            d = (unit * (n // p + 1))[:n]
            nz = sum(1 for x in sh.tlsh_buckets(d, w)[:b] if x)
            if nz in targets and nz not in found:
                found[nz] = d
        for nz, d in sorted(found.items()):
            ctx.state('gate (buckets, non-zero buckets)', (b, nz))
            want = sh.tlsh(d, b, w, c, True)
            got = call(lambda: TLSH(b, w, c)(d, True))
            det = dict(cfg=case['cfg'], n=len(d), nonzero=nz, data=d[:64])
            ctx.check('tlsh:none-not-exception', not is_exc(got), got, 'a digest or None', **det)
            if want != 'UNSPEC':
                ctx.eq('tlsh==model', got, want, **det)
                ctx.eq('tlsh:gate-boundary', got is None, want is None, **det)
    elif k == 'lvalue':
        # the length byte as a function of the input length, for every length in the range (no data needs hashing: the
        # object's public data_len is set and its own l_capturing() is asked)
        from crysp.tlsh import TLSH
        ctx.cls(('lvalue', case['lo'] // 50000))
        o = TLSH(128)
        bad = 0
        for n in range(case['lo'], case['hi']):
            o.data_len = n
            got = call(o.l_capturing)
            if got != sh.tlsh_lvalue(n) or is_exc(got):
                bad += 1
                if bad <= 3:
                    ctx.eq('tlsh:lvalue==model', got, sh.tlsh_lvalue(n), n=n)
        ctx.check('tlsh:lvalue==model', bad == 0, '%d lengths differ' % bad, 'all lengths agree', lo=case['lo'], hi=case['hi'])
        ctx.exhaustive['TLSH length byte for every input length 1..200000 (quick) / 2000000 (thorough)'] += case['hi'] - case['lo']
    elif k == 'tlsh-dist':
        from crysp.tlsh import TLSH, distance
        b, w, c = case['cfg']
        ctx.cls((b, w, c, 'dist'))
        ds = []
        tries = 0
        while len(ds) < 3 and tries < 12:
            tries += 1
            base = data(rng, ['rand', 'text', 'text'][tries % 3], rng.choice([300, 700, 3300]))
            if ds and tries % 2:            # a near-duplicate of an earlier input: small distances
                base = bytearray(ds[0][0]); base[rng.randrange(len(base))] ^= 0x55; base = bytes(base) + b'tail'
            o = TLSH(b, w, c)
            h = call(lambda: o(base, True))
            if isinstance(h, bytes):
                ds.append((base, h, o))
        for i in range(len(ds)):
            for j in range(len(ds)):
                hx, hy, ox, oy = ds[i][1], ds[j][1], ds[i][2], ds[j][2]
                for lv in (True, False):
                    vals = call(lambda: (distance(ox, oy, lv), distance(hx, hy, lv), distance(ox, hy, lv), distance(hx, oy, lv), distance(oy, ox, lv), distance(hy, hx, lv)))
                    det = dict(cfg=case['cfg'], hx=hx, hy=hy, lvalue=lv)
                    ok = (not is_exc(vals)) and all(isinstance(v, int) and not isinstance(v, bool) and v >= 0 for v in vals) and len(set(vals)) == 1 and (i != j or vals[0] == 0)
                    ctx.check('tlsh:distance-laws', ok, vals, 'one non-negative int for all argument forms and both orders%s' % (', 0 for identical digests' if i == j else ''), **det)
                    # objects in their other states: finalised but not yet serialised, and re-loaded from a digest
                    def other_states():
                        fx = TLSH(b, w, c); fx.final(ds[i][0], True); fy = TLSH(b, w, c); fy.final(ds[j][0], True)
                        rx = TLSH(b, w, c).from_hash(hx); ry = TLSH(b, w, c).from_hash(hy)
                        return (distance(fx, fy, lv), distance(fy, fx, lv), distance(rx, ry, lv), distance(fx, ry, lv), distance(rx, hy, lv), distance(hx, fy, lv))
                    v2 = call(other_states)
                    ctx.check('tlsh:distance-laws', not is_exc(vals) and not is_exc(v2) and set(v2) == {vals[1]}, v2, vals if is_exc(vals) else vals[1], states='final() without digest(), from_hash()', **det)
                    if not is_exc(vals):
                        ctx.eq('tlsh:distance==model', vals[1], sh.tlsh_distance(hx, hy, c, lv), **det)
                        ctx.eq('tlsh:distance_to', call(lambda: ox.distance_to(oy)), call(lambda: distance(ox, oy)), **det)
    elif k == 'nil':
        from crysp.nilsimsa import Nilsimsa
        t, n = case['target'], case['n']
        d = data(rng, case['kind'], n)
        ctx.cls(('nil', t, n, case['kind']))
        got = call(lambda: Nilsimsa(t)(d))
        det = dict(target=t, n=n, data=d if n <= 64 else d[:32] + b'...')
        ctx.eq('nilsimsa==model', got, sh.nilsimsa(d, 53 if t is None else t), **det)
        if not is_exc(got):
            ctx.check('nilsimsa:length', isinstance(got, bytes) and len(got) == 32, len(got), 32, **det)
        from vmon.core import mutable_arg
        hn = Nilsimsa(t)
        mutable_arg(ctx, 'nilsimsa==model', (lambda buf: hn(buf)), d, sh.nilsimsa(d, 53 if t is None else t), one_object=True, **det)
        ctx.eq('nilsimsa==model', call(lambda: Nilsimsa(t)(list(d))), sh.nilsimsa(d, 53 if t is None else t), arg='a list of ints', **det)
    elif k == 'siblings':
        from vmon.core import siblings
        from crysp.nilsimsa import Nilsimsa
        from crysp.tlsh import TLSH
        fam = case['fam']
        ctx.cls(('siblings', fam, case['j'] % 3))
        specs = []
        if fam == 'nilsimsa':
            for t in rng.sample([None, 53, 17, 99, 200, 1], 3):
                d1 = data(rng, 'text', 120); d2 = data(rng, 'rand', 60)
                tt = 53 if t is None else t
                specs.append(('Nilsimsa(%s)' % t, (lambda t=t: Nilsimsa(t)), [('h(d1)', (lambda o, d=d1: o(d)), sh.nilsimsa(d1, tt)), ('h(d2)', (lambda o, d=d2: o(d)), sh.nilsimsa(d2, tt)),
                                                                               ('update+digest', (lambda o, d=d1: o.update(d[:50]).update(d[50:]).digest()), sh.nilsimsa(d1, tt))]))
        else:
            for cfg in rng.sample(CFGS, 3):
                b, w, c = cfg
                d1 = data(rng, 'text', 400); d2 = data(rng, 'rand', 300)
                uses = []
                for lab, d in (('h(d1,force)', d1), ('h(d2,force)', d2)):
                    want = sh.tlsh(d, b, w, c, True)
                    if want != 'UNSPEC':
                        uses.append((lab, (lambda o, d=d: o(d, True)), want))
                uses.append(('h(short)', (lambda o: o(b'short input')), None))
                specs.append(('TLSH%s' % (cfg,), (lambda cfg=cfg: TLSH(*cfg)), uses))
        siblings(ctx, rng, 'siblings:digest==model', specs, late=specs.pop(), family=fam)
    elif k == 'nil-lengths':
        from crysp.nilsimsa import Nilsimsa
        t = case['target']
        ctx.cls(('nil-lengths', case['lo'] // 100, t))
        for n in range(case['lo'], case['hi']):
            d = data(rng, ['rand', 'text'][n % 2], n)
            ctx.eq('nilsimsa==model', call(lambda: Nilsimsa(t)(d)), sh.nilsimsa(d, 53 if t is None else t), target=t, n=n, data=d[:40])
            c = n // 2
            ctx.eq('nilsimsa==model', call(lambda: Nilsimsa(t).update(d[:c]).update(d[c:]).digest()), sh.nilsimsa(d, 53 if t is None else t), target=t, n=n, streamed=True)
        ctx.exhaustive['nilsimsa at every input length 0..300 (quick) / 0..1200 (thorough)'] += case['hi'] - case['lo']
    elif k == 'nil-dist':
        from crysp.nilsimsa import Nilsimsa, distance
        ctx.cls(('nil-dist', case['j'] % 5))
        a = data(rng, 'text', 200); bb = bytearray(a); bb[rng.randrange(200)] ^= 1
        hs = [call(lambda: Nilsimsa()(x)) for x in (a, bytes(bb), data(rng, 'rand', 300))]
        if any(is_exc(h) for h in hs):
            ctx.eq('nilsimsa:distance==hamming', hs, 'digests'); return
        for x in hs:
            for y in hs:
                ham = sum(bin(p ^ q).count('1') for p, q in zip(x, y))
                got = call(lambda: (distance(x, y), distance(y, x)))
                ctx.eq('nilsimsa:distance==hamming', got, (ham, ham), x=x, y=y)

def classify(case, fail):
    return None
