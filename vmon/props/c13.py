"""C13  HMAC equals RFC 2104 for every hash of the library, key length and message."""
import hashlib, hmac as pyhmac
from vmon.core import call, is_exc, pattern
from vmon.refs import mdsha, blake as rblake
from vmon.props import c01

ID = 'C13'
RULE = ('class = (hash, |K| class around 0/1/digest/block/2*block/3*block, |M| class, history kind); oracle = stdlib hmac over hashlib '
        'where hashlib has the hash, RFC 2104 formula over the own reference hash otherwise (MD4, SHA-0, BLAKE-n) and as cross-check')
ASSUMPTIONS = ['stdlib hmac/hashlib', 'own MD/SHA and BLAKE references (self-tested)']
ANCHORS = [('hmac.py', 'HMAC.setkey'), ('hmac.py', 'HMAC.__call__'), ('hmac.py', 'HMAC.__init__')]
REQUIRED = ['used-hash:hmac==rfc2104', 'samekey:hmac==rfc2104', 'siblings:hmac==rfc2104', 'hmac==rfc2104', 'hmac==stdlib', 'setkey-replaces-key', 'mac-length']
NSHARDS = 14
SAN = {'quick': (2, 30), 'thorough': (2, 30)}
HASHES = c01.ALGS + ['blake224', 'blake256', 'blake384', 'blake512']
HAVE = c01.HAVE

def selftest():
    k = b'\x0b' * 20
    assert mdsha.hmac('md5', k[:16], b'Hi There').hex() == '9294727a3638bb1c13f48ef8158bfc9d'            # RFC 2202
    assert mdsha.hmac('sha1', k, b'Hi There').hex() == 'b617318655057264e28bc0b6fb378c8ef146be00'
    assert mdsha.hmac('sha256', k, b'Hi There').hex() == 'b0344c61d8db38535ca8afceaf0bf12b881dc200c9833da726e9376c2e32cff7'  # RFC 4231
    assert mdsha.hmac('sha512', b'\xaa' * 131, b'Test Using Larger Than Block-Size Key - Hash Key First').hex().startswith('80b24263c7c1a3ebb71493c1dd7be8b4')
    return rblake.selftest() + '; HMAC formula reproduces RFC 2202 / RFC 4231 vectors'

def info(name):
    if name.startswith('blake'):
        n = int(name[5:])
        return (128 if n > 256 else 64), n // 8
    a = mdsha.ALGS[name]
    return a['block'], a['outlen']

def make(name):
    if name.startswith('blake'):
        from crysp.blake import Blake
        return Blake(int(name[5:]))
    return c01.make(name)

def ref(name, K, M):
    if name.startswith('blake'):
        return rblake.hmac(int(name[5:]), K, M)
    return mdsha.hmac(name, K, M)

def keylens(B, D):
    s = {0, 1, D - 1, D, D + 1, B - 1, B, B + 1, 2 * B - 1, 2 * B, 2 * B + 1, 3 * B, B + D, B // 2}
    return sorted(x for x in s if x >= 0)

def cases(tier, rng):
    for j in range(6 if tier == 'quick' else 60):
        yield {'k': 'samekey', 'h': 'all', 'j': j}
    for name in HASHES:
        for j in range(2 if tier == 'quick' else 10):
            yield {'k': 'used-hash', 'h': name, 'j': j}
    for name in HASHES:
        B, D = info(name)
        mls = [0, 1, B - 1, B, B + 3, B - 9, B - 17, 2 * B - 9, B - 8] if tier == 'quick' else [0, 1, 7, D, B - D - 1, B - 1, B, B + 1, 2 * B, 3 * B + 5]
        for kl in keylens(B, D) + ([2, B - D, 5 * B] if tier == 'thorough' else []):
            for ml in mls:
                for pat in (('rand',) if tier == 'quick' else ('rand', 'zero', 'ones')):
                    yield {'k': 'mac', 'h': name, 'kl': kl, 'ml': ml, 'pat': pat}
        for ml in (4099,) + ((65539,) if name in ('sha256', 'md5') else ()):          # long messages
            yield {'k': 'mac', 'h': name, 'kl': [7, B + 3][ml % 2], 'ml': ml, 'pat': 'rand'}
        for j in range(3 if tier == 'quick' else 20):
            yield {'k': 'siblings', 'h': name, 'j': j}
        for kl1 in (0, 5, B, B + 9, 3 * B):
            for kl2 in (0, 7, B, B + 1, 2 * B + 3):
                yield {'k': 'rekey', 'h': name, 'kl1': kl1, 'kl2': kl2}

def kcls(kl, B, D):
    if kl > B: return 'long%+d' % (kl - B) if kl - B < 3 else ('2B' if kl <= 2 * B + 1 else '3B+')
    if kl == B: return 'B'
    return 'short:%d' % kl if kl <= 1 else ('~D%+d' % (kl - D) if abs(kl - D) <= 1 else 'B-1' if kl == B - 1 else 'mid')

def run(case, ctx, rng):
    from crysp.hmac import HMAC
    if case['k'] == 'samekey':
        # the same key (also longer than every block) and message under every hash of the library, in one process
        K = rng.randbytes([131, 200, 20, 64, 129, 300][case['j'] % 6]); M = rng.randbytes(rng.choice([0, 20, 150]))
        ctx.cls(('samekey', len(K)))
        names = list(HASHES); rng.shuffle(names)
        for nm in names:
            ctx.eq('samekey:hmac==rfc2104', call(lambda: HMAC(make(nm), K)(M)), ref(nm, K, M), h=nm, K=K, M=M, order=names)
        return
    name = case['h']
    B, D = info(name)
    if case['k'] == 'used-hash':
        # the hash object handed to HMAC has a past: other messages, a bit length, a salt (BLAKE), a partial update
        h = make(name)
        ctx.cls((name, 'used-hash', case['j'] % 2))
        call(h, rng.randbytes(70))
        call(h, rng.randbytes(9), bitlen=13) if not name.startswith('blake') else call(h, rng.randbytes(9), rng.getrandbits(64), 13)
        if case['j'] % 2:
            call(lambda: (h.initstate(), h.update(bytes(B))))
            call(h.update, b'an incomplete block')          # (refused by the streaming interface; must leave nothing behind)
            call(h.update, bytes(B + 3))
        K = rng.randbytes(rng.choice([0, 7, B + 5])); M = rng.randbytes(rng.choice([0, 33, B]))
        mac = call(HMAC, h, K)
        ctx.eq('used-hash:hmac==rfc2104', mac if is_exc(mac) else call(mac, M), ref(name, K, M), h=name, K=K, M=M)
        if not is_exc(mac):
            call(h, b'interleaved direct use of the hash object')
            ctx.eq('used-hash:hmac==rfc2104', call(mac, M), ref(name, K, M), h=name, K=K, M=M, second=True)
        return
    if case['k'] == 'mac':
        K = pattern(rng, case['kl'], case['pat']); M = pattern(rng, case['ml'], 'rand')
        ctx.cls((name, kcls(case['kl'], B, D), case['ml']))
        got = call(lambda: HMAC(make(name), K)(M))
        ctx.eq('hmac==rfc2104', got, ref(name, K, M), h=name, K=K, M=M)
        if name in HAVE:
            ctx.eq('hmac==stdlib', got, pyhmac.new(K, M, mdsha.HASHLIB[name]).digest(), h=name, kl=len(K), ml=len(M))
        if not is_exc(got):
            ctx.eq('mac-length', len(got), D, h=name)
        # same object, second and third message (the hash object is shared by both nested calls)
        kb = bytearray(K)
        macb = call(HMAC, make(name), kb)
        if not is_exc(macb):
            for i in range(len(kb)): kb[i] = 0              # the caller wipes / reuses its buffer
            kb += b'xx'
            ctx.eq('hmac==rfc2104', call(macb, M), ref(name, K, M), h=name, K=K, M=M, key_buffer_wiped_after_setkey=True)
        mac = call(HMAC, make(name), K)
        if not is_exc(mac):
            M2 = pattern(rng, case['ml'] + 3, 'rand')
            ctx.eq('hmac==rfc2104', call(mac, M2), ref(name, K, M2), h=name, K=K, M=M2, reuse=1)
            ctx.eq('hmac==rfc2104', call(mac, M), ref(name, K, M), h=name, K=K, M=M, reuse=2)
            from vmon.core import mutable_arg
            mutable_arg(ctx, 'hmac==rfc2104', (lambda buf: mac(buf)), M, ref(name, K, M), h=name, K=K)
    elif case['k'] == 'siblings':
        from vmon.core import siblings
        ctx.cls((name, 'siblings', case['j'] % 3))
        shared = make(name)                      # one hash object shared by several MAC objects
        specs = []
        for t, kl in enumerate(rng.sample([0, 3, D, B, B + 1, 2 * B + 5], 4)):
            K = rng.randbytes(kl); M1 = rng.randbytes(rng.choice([0, 10, B + 3])); M2 = rng.randbytes(20)
            hobj = shared if t % 2 == 0 else None
            specs.append(('HMAC(%s,|K|=%d%s)' % (name, kl, ',shared hash' if hobj is not None else ''), (lambda K=K, hobj=hobj: HMAC(hobj if hobj is not None else make(name), K)),
                          [('mac(M1)', (lambda o, M=M1: o(M)), ref(name, K, M1)), ('mac(M2)', (lambda o, M=M2: o(M)), ref(name, K, M2))]))
        siblings(ctx, rng, 'siblings:hmac==rfc2104', specs, late=specs.pop(), h=name)
    else:
        K1 = rng.randbytes(case['kl1']); K2 = rng.randbytes(case['kl2']); M = rng.randbytes(rng.choice([0, 3, B, B + 1]))
        ctx.cls((name, 'rekey', case['kl1'], case['kl2']))
        def seq():
            mac = HMAC(make(name), K1)
            a = mac(M)
            mac.setkey(K2)
            return a, mac(M)
        got = call(seq)
        if is_exc(got):
            ctx.eq('setkey-replaces-key', got, ref(name, K2, M), h=name, K1=K1, K2=K2)
        else:
            ctx.eq('hmac==rfc2104', got[0], ref(name, K1, M), h=name, K=K1, M=M)
            ctx.eq('setkey-replaces-key', got[1], ref(name, K2, M), h=name, K1=K1, K2=K2, M=M)
        # longer re-keying histories: setkey / mac in any order (several setkeys in a row, keys of equal and different lengths,
        # key values built on the fly so that the caller keeps no reference to them)
        mac = call(HMAC, make(name), K1)
        if not is_exc(mac):
            cur = K1; hist = []
            lens = [case['kl1'], case['kl2'], case['kl1'], 0, B, B + 7]
            for step in range(10):
                if rng.random() < 0.55:
                    kl = rng.choice(lens); seed = rng.getrandbits(32)
                    call(lambda: mac.setkey(bytes((seed >> (8 * (i % 4)) ^ i) & 0xff for i in range(kl))))
                    cur = bytes((seed >> (8 * (i % 4)) ^ i) & 0xff for i in range(kl)); hist.append('setkey(|K|=%d)' % kl)
                else:
                    Mx = rng.randbytes(rng.choice([0, 5, B]))
                    ctx.eq('setkey-replaces-key', call(mac, Mx), ref(name, cur, Mx), h=name, K=cur, M=Mx, history=list(hist))
                    hist.append('mac')

def classify(case, fail):
    return None
