"""C08  Bits: operators are fixed-width modular algebra touching only addressed bits."""
import itertools
from vmon.core import call, is_exc, Exc

ID = 'C08'
RULE = ('class = (operator, operand kinds, width class); widths 0..6: all operand pairs, all shift/rotation amounts, all slices over '
        'start/stop/step in {None,-8,-3,-2,-1,0,1,2,3,8} and index lists enumerated; widths to 2048 sampled at word boundaries; '
        'mutation histories of 1..12 steps compared with the (value,size) model after every step; operands checked unchanged')
ASSUMPTIONS = ['(value,size) model on Python ints and lists of bits']
ANCHORS = [('bits.py', 'Bits.__and__'), ('bits.py', 'Bits.__or__'), ('bits.py', 'Bits.__xor__'), ('bits.py', 'Bits.__add__'), ('bits.py', 'Bits.__sub__'),
           ('bits.py', 'Bits.__neg__'), ('bits.py', 'Bits.__mul__'), ('bits.py', 'Bits.__rsub__'), ('bits.py', 'Bits.__radd__'),
           ('bits.py', 'Bits.__lshift__'), ('bits.py', 'Bits.__rshift__'), ('bits.py', 'Bits.__invert__'),
           ('bits.py', 'Bits.__getitem__'), ('bits.py', 'Bits.__setitem__'), ('bits.py', 'Bits.__floordiv__'), ('bits.py', 'Bits.split'),
           ('bits.py', 'Bits.zeroextend'), ('bits.py', 'Bits.signextend'), ('bits.py', 'Bits.hw'), ('bits.py', 'Bits.hd'),
           ('operators.py', 'rol'), ('operators.py', 'ror'), ('operators.py', 'concat')]
REQUIRED = ['op:+', 'op:-', 'op:&', 'op:|', 'op:^', 'op:neg', 'op:~', 'op:*', 'op:<<', 'op:>>', 'op://', 'rol', 'ror', 'split', 'getitem',
            'setitem', 'history-step', 'operand-unchanged', 'law:a+(-a)==0', 'law:rol(ror)', 'resalias:second-read', 'alias-unaffected']
NSHARDS = 13
SAN = {'quick': (3, 6), 'thorough': (3, 3)}
S3_EVERY = 50
S7 = ('thorough',)          # the repository's own suite re-run under S1/S3 as a second workload

def selftest():
    assert m_bin('+', (15, 4), (1, 1)) == (0, 4) and m_bin('-', (0, 4), (1, 9)) == (511, 9) and m_neg((1, 4)) == (15, 4)
    assert m_rol((0b0011, 4), 1) == (0b0110, 4) and m_rol((0b1001, 4), 1) == (0b0011, 4) and m_ror((0b1001, 4), 1) == (0b1100, 4)
    return '(value,size) model ok'

M = lambda n: (1 << n) - 1
def m_bin(op, a, b):
    w = max(a[1], b[1])
    x, y = a[0], b[0]
    v = {'+': x + y, '-': x - y, '&': x & y, '|': x | y, '^': x ^ y}[op]
    return (v & M(w), w)
def m_neg(a): return ((-a[0]) & M(a[1]), a[1])
def m_inv(a): return (a[0] ^ M(a[1]), a[1])
def m_mul(a, y): return ((a[0] * y) & M(a[1]), a[1])
def m_shl(a, i): return ((a[0] << i) & M(a[1]), a[1])
def m_shr(a, i): return (a[0] >> i, a[1])
def m_rol(a, k):
    n = a[1]
    if n == 0: return a
    k %= n
    return (((a[0] << k) | (a[0] >> (n - k))) & M(n), n)
def m_ror(a, k):
    n = a[1]
    if n == 0: return a
    return m_rol(a, (n - k % n) % n)
def m_cat(a, b): return (a[0] | (b[0] << a[1]), a[1] + b[1])
def bl(a): return [(a[0] >> i) & 1 for i in range(a[1])]
def fl(bits): return (sum(b << i for i, b in enumerate(bits)), len(bits))
def isz(y): return (y, y.bit_length())

def vs(r):
    return r if is_exc(r) else (r.ival, r.size)

def res_ok(ctx, mon, r, want, **det):
    """result equals the model and its payload fits its size"""
    if is_exc(r):
        return ctx.check(mon, False, r, want, **det)
    ok = (r.ival, r.size) == want and 0 <= r.ival <= r.mask and r.mask == M(r.size)
    return ctx.check(mon, ok, (r.ival, r.size, r.mask), want, **det)

SL = [None, -8, -3, -2, -1, 0, 1, 2, 3, 8]
ST = [None, 1, 2, 3, -1, -2, -3]

def cases(tier, rng):
    W = 6
    vecs = [(x, n) for n in range(W + 1) for x in range(1 << n)]
    for i, a in enumerate(vecs):
        yield {'k': 'pairs', 'a': list(a)}
        yield {'k': 'unary', 'a': list(a)}
        yield {'k': 'index', 'a': list(a)}
    if tier == 'thorough':
        for n in (7, 8):
            for x in range(0, 1 << n, 3):
                yield {'k': 'unary', 'a': [x, n]}
                yield {'k': 'index', 'a': [x, n]}
    nbig = 3000 if tier == 'quick' else 40000
    sizes = [7, 8, 9, 15, 16, 17, 31, 32, 33, 63, 64, 65, 127, 128, 129, 255, 256, 257, 511, 512, 1023, 1024, 1025, 2047, 2048]
    for j in range(nbig):
        yield {'k': 'big', 'm': sizes[j % len(sizes)], 'n': sizes[(j // len(sizes) + j) % len(sizes)], 'pa': j % 4, 'pb': (j // 4) % 4}
    nh = 6000 if tier == 'quick' else 100000
    for j in range(200 if tier == 'quick' else 4000):
        yield {'k': 'resalias', 'n': [1, 2, 3, 5, 8, 16, 33, 64][j % 8], 'j': j}
    for j in range(nh):
        yield {'k': 'history', 'n': [0, 1, 2, 5, 8, 13, 32, 64, 65, 200][j % 10], 'steps': 1 + j % 12}

def run(case, ctx, rng):
    k = case['k']
    globals()['run_' + k](case, ctx, rng)

def binops(ctx, B, a, b, ints=True):
    A, Bv = B(*a), B(*b)
    det = dict(a=a, b=b)
    for op, f in (('+', lambda x, y: x + y), ('-', lambda x, y: x - y), ('&', lambda x, y: x & y), ('|', lambda x, y: x | y), ('^', lambda x, y: x ^ y)):
        res_ok(ctx, 'op:' + op, call(f, A, Bv), m_bin(op, a, b), op=op, **det)
    res_ok(ctx, 'op:*', call(lambda: A * Bv), m_mul(a, b[0]), **det)
    res_ok(ctx, 'op://', call(lambda: A // Bv), m_cat(a, b), **det)
    if a[1] == b[1]:
        ctx.eq('hd', call(A.hd, Bv), bin(a[0] ^ b[0]).count('1'), **det)
    r = call(lambda: A // Bv)
    if not is_exc(r):
        # (a // b) cut at m gives back [a, b]
        ctx.eq('law:(a//b)-cut-back', call(lambda: (vs(r[0:a[1]]), vs(r[a[1]:]))), (a, b), **det)
    ctx.check('operand-unchanged', (A.ival, A.size, Bv.ival, Bv.size) == (a[0], a[1], b[0], b[1]), (A.ival, A.size, Bv.ival, Bv.size), a + b)
    # the augmented forms compute the same values, and whoever still holds the old left operand sees it unchanged
    import operator as OP
    for op, f, want in (('+', OP.iadd, None), ('-', OP.isub, None), ('&', OP.iand, None), ('|', OP.ior, None), ('^', OP.ixor, None),
                        ('*', OP.imul, m_mul(a, b[0])), ('//', OP.ifloordiv, m_cat(a, b))):
        X = B(*a); keep = X
        r = call(f, X, Bv)
        res_ok(ctx, 'op:' + op, r, m_bin(op, a, b) if want is None else want, op=op + '=', **det)
        ctx.check('operand-unchanged', (keep.ival, keep.size, Bv.ival, Bv.size) == (a[0], a[1], b[0], b[1]), (keep.ival, keep.size, Bv.ival, Bv.size), a + b, op=op + '=', alias_of_left_operand=True)

def intops(ctx, B, a, y):
    A = B(*a)
    det = dict(a=a, y=y)
    b = isz(y)
    for op, f, g in (('+', lambda x: x + y, lambda x: y + x), ('-', lambda x: x - y, lambda x: y - x), ('&', lambda x: x & y, lambda x: y & x),
                     ('|', lambda x: x | y, lambda x: y | x), ('^', lambda x: x ^ y, lambda x: y ^ x)):
        res_ok(ctx, 'op:' + op, call(f, A), m_bin(op, a, b), op='Bits%sint' % op, **det)
        res_ok(ctx, 'op:' + op, call(g, A), m_bin(op, b, a), op='int%sBits' % op, **det)
    res_ok(ctx, 'op:*', call(lambda: A * y), m_mul(a, y), op='Bits*int', **det)
    res_ok(ctx, 'op://', call(lambda: A // y), m_cat(a, b), op='Bits//int', **det)
    ctx.check('operand-unchanged', (A.ival, A.size) == a, (A.ival, A.size), a)

def run_pairs(case, ctx, rng):
    from crysp.bits import Bits as B
    a = tuple(case['a'])
    ctx.cls(('pairs', a[1]))
    cnt = 0
    for n in range(7):
        for y in range(1 << n):
            binops(ctx, B, a, (y, n)); cnt += 1
    for y in list(range(0, 20)) + [31, 32, 33, 63, 64, 65, 127, 128, 255, 256, 300]:
        intops(ctx, B, a, y)
    ctx.exhaustive['binary operators on all operand pairs of widths 0..6'] += cnt

def m_catlist(vals):
    """model of folding // over (value, size) pairs: the first one ends up in the low positions"""
    v, n = 0, 0
    for x, sz in vals:
        v |= x << n; n += sz
    return (v, n)

def unary(ctx, B, a, amounts=None):
    from crysp.utils.operators import rol, ror, concat
    n = a[1]
    A = B(*a)
    det = dict(a=a)
    res_ok(ctx, 'op:neg', call(lambda: -A), m_neg(a), **det)
    res_ok(ctx, 'op:~', call(lambda: ~A), m_inv(a), **det)
    r = call(lambda: A + (-A))
    res_ok(ctx, 'law:a+(-a)==0', r, (0, n), **det)
    ctx.eq('hw', call(A.hw), bin(a[0]).count('1'), **det)
    for i in (amounts if amounts is not None else range(0, n + 3)):
        res_ok(ctx, 'op:<<', call(lambda: A << i), m_shl(a, i), i=i, **det)
        res_ok(ctx, 'op:>>', call(lambda: A >> i), m_shr(a, i), i=i, **det)
    for i in (amounts if amounts is not None else range(0, n + 1)):
        if i > n:
            continue
        res_ok(ctx, 'rol', call(rol, A, i), m_rol(a, i), i=i, **det)
        res_ok(ctx, 'ror', call(ror, A, i), m_ror(a, i), i=i, **det)
        res_ok(ctx, 'law:rol(ror)', call(lambda: rol(ror(A, i), i)), a, i=i, **det)
        res_ok(ctx, 'law:rol(ror)', call(lambda: ror(rol(A, i), i)), a, i=i, **det)
    bits = bl(a)
    for sub in ([1, 2, 3, 4, 5, 8] if n <= 16 else [1, 7, 8, 32, 64, n, n + 1]):
        for big in (False, True):
            want = [fl(bits[i:i + sub]) for i in range(0, n, sub)]
            if big: want.reverse()
            got = call(lambda: [vs(x) for x in A.split(sub, big)] if big else [vs(x) for x in A.split(sub)])
            ctx.eq('split', got, want, sub=sub, bigend=big, **det)
            pcs = call(lambda: A.split(sub))
            if not is_exc(pcs) and pcs:
                res_ok(ctx, 'law:concat(split)', call(concat, pcs), a, sub=sub, **det)
                # the big-endian fold (first piece in the high positions), given a list or a tuple, twice; the caller's pieces untouched
                bsnap = [vs(x) for x in pcs]
                wantb = m_catlist([vs(x) for x in reversed(pcs)])
                for form, arg in (('list', pcs), ('list again', pcs), ('tuple', tuple(pcs))):
                    res_ok(ctx, 'law:concat(split)', call(concat, arg, True), wantb, sub=sub, bigend=True, form=form, **det)
                ctx.check('operand-unchanged', [vs(x) for x in pcs] == bsnap, [vs(x) for x in pcs], bsnap, op='concat(bigend=True)', **det)
    for m in (0, n - 1, n, n + 1, n + 5, 2 * n + 1):
        if m < 0:
            continue
        Z = B(*a); r = call(Z.zeroextend, m)
        ok = (not is_exc(r)) and r is Z
        ctx.check('zeroextend', ok and (Z.ival, Z.size) == (a[0], max(n, m)), vs(r), (a[0], max(n, m)), m=m, **det)
        if n > 0:
            Z = B(*a); r = call(Z.signextend, m)
            w = max(n, m)
            sv = a[0] - (1 << n) if (a[0] >> (n - 1)) & 1 else a[0]
            ok = (not is_exc(r)) and r is Z and (Z.ival, Z.size) == (sv & M(w), w) and Z.mask == M(w)
            ctx.check('signextend', ok, vs(r), (sv & M(w), w), m=m, **det)
            if ok:
                ctx.eq('signextend:signed-value-preserved', call(Z.int, -1), sv, m=m, **det)
        Z = B(*a); r = call(lambda: Z.extend(False, m))
        ctx.check('zeroextend', not is_exc(r) and (Z.ival, Z.size) == (a[0], max(n, m)), vs(r), (a[0], max(n, m)), via='extend', m=m, **det)
    ctx.check('operand-unchanged', (A.ival, A.size) == a, (A.ival, A.size), a)

def run_unary(case, ctx, rng):
    from crysp.bits import Bits as B
    a = tuple(case['a'])
    ctx.cls(('unary', a[1]))
    unary(ctx, B, a)
    ctx.exhaustive['unary operators, all shift/rotation amounts, split, extension on all vectors of widths 0..6(+sampled 7,8)'] += 1

def fitting_values(s):
    vals = {0, M(s), M(s) // 3, 1 if s else 0, (1 << (s - 1)) if s else 0}
    return sorted(vals)

def run_index(case, ctx, rng):
    from crysp.bits import Bits as B
    a = tuple(case['a']); n = a[1]
    bits = bl(a)
    A = B(*a)
    ctx.cls(('index', n))
    det = dict(a=a)
    for i in range(-n, n):
        res_ok(ctx, 'getitem', call(lambda: A[i]), (bits[i], 1), idx=i, **det)
        for v in (0, 1):
            Z = B(*a); r = call(Z.__setitem__, i, v)
            w = list(bits); w[i] = v
            ctx.check('setitem', not is_exc(r) and (Z.ival, Z.size) == fl(w) and Z.mask == M(n), vs(Z) if not is_exc(r) else r, fl(w), idx=i, v=v, **det)
            # the same bit given as a 1-bit vector, as a bool, and read from another vector (b[i] = c[j])
            for form, val in (('Bits(v,1)', B(v, 1)), ('bool', bool(v)), ('c[j]', B(2 if v else 5, 3)[1])):
                Z = B(*a); r = call(Z.__setitem__, i, val)
                ctx.check('setitem', not is_exc(r) and (Z.ival, Z.size) == fl(w) and Z.mask == M(n), vs(Z) if not is_exc(r) else r, fl(w), idx=i, v=v, form=form, **det)
    cnt = 0
    for st in SL:
        for sp in SL:
            for step in ST:
                sl = slice(st, sp, step)
                want = fl(bits[sl])
                res_ok(ctx, 'getitem', call(lambda: A[sl]), want, idx=str(sl), **det)
                cnt += 1
                sel = list(range(n))[sl]
                s = len(sel)
                for v in fitting_values(s):
                    w = list(bits)
                    for j, p in enumerate(sel):
                        w[p] = (v >> j) & 1
                    Z = B(*a)
                    r = call(Z.__setitem__, sl, B(v, s))
                    ctx.check('setitem', not is_exc(r) and (Z.ival, Z.size) == fl(w) and Z.mask == M(n), r if is_exc(r) else vs(Z), fl(w), idx=str(sl), v=v, vsize=s, **det)
                    if (step in (None, 1)) and s > 0 and v.bit_length() == s:
                        # a plain int / bit list of exactly the selection's length
                        Z = B(*a); r = call(Z.__setitem__, sl, [(v >> j) & 1 for j in range(s)])
                        ctx.check('setitem', not is_exc(r) and (Z.ival, Z.size) == fl(w), r if is_exc(r) else vs(Z), fl(w), idx=str(sl), v='list', **det)
                    if s == 0:
                        # an empty selection (j:j, or an inverted one such as 5:2) assigned "nothing" in each spelling: nothing changes
                        for ev in ([], 0, B(0, 0)):
                            Z = B(*a); r = call(Z.__setitem__, sl, ev)
                            if not is_exc(r):
                                ctx.check('setitem', (Z.ival, Z.size) == fl(w) and Z.mask == M(n), vs(Z), fl(w), idx=str(sl), v=repr(ev), empty_selection=True, **det)
                    if (step in (None, 1)) and s > 0:
                        Z = B(*a); r = call(Z.__setitem__, sl, v)     # contiguous fast path takes any int that fits
                        ctx.check('setitem', not is_exc(r) and (Z.ival, Z.size) == fl(w), r if is_exc(r) else vs(Z), fl(w), idx=str(sl), v='int', **det)
    ctx.exhaustive['slices over start/stop/step grid (read and write) on all vectors of widths 0..6(+sampled 7,8)'] += cnt
    if n:
        lists = [[0], [n - 1], list(range(n)), list(range(n - 1, -1, -1)), [0, 0], [n - 1, 0, n - 1], [i for i in range(n) if i % 2], [0] * 3 + [n - 1]]
        lists += [[rng.randrange(n) for _ in range(rng.randrange(1, 2 * n + 2))] for _ in range(4)]
        for L in lists:
            res_ok(ctx, 'getitem', call(lambda: A[L]), fl([bits[i] for i in L]), idx=L, **det)
            res_ok(ctx, 'getitem', call(lambda: A[tuple(L)]), fl([bits[i] for i in L]), idx=L, **det)
            v = rng.getrandbits(len(L))
            w = list(bits)
            for j, p in enumerate(L):
                w[p] = (v >> j) & 1
            Z = B(*a); r = call(Z.__setitem__, L, B(v, len(L)))
            ctx.check('setitem', not is_exc(r) and (Z.ival, Z.size) == fl(w), r if is_exc(r) else vs(Z), fl(w), idx=L, v=v, **det)
    # the assigned value is the target itself (in-place permutations)
    if n:
        perms = [('[::-1]', slice(None, None, -1), list(range(n))[::-1]), ('rot', [(i + 1) % n for i in range(n)], [(i + 1) % n for i in range(n)]),
                 ('swap-halves', list(range(n // 2, n)) + list(range(0, n // 2)), list(range(n // 2, n)) + list(range(0, n // 2))), ('[:]', slice(None), list(range(n)))]
        for name, idx, sel in perms:
            Z = B(*a); r = call(Z.__setitem__, idx, Z)
            w = list(bits)
            for j, p in enumerate(sel):
                w[p] = bits[j]
            ctx.check('setitem', not is_exc(r) and (Z.ival, Z.size) == fl(w), r if is_exc(r) else vs(Z), fl(w), idx=name, v='the vector itself', **det)
    ctx.check('operand-unchanged', (A.ival, A.size) == a, (A.ival, A.size), a)

PAT = [lambda r, n: r.getrandbits(n) if n else 0, lambda r, n: 0, lambda r, n: M(n), lambda r, n: (1 << r.randrange(n)) if n else 0]

def run_big(case, ctx, rng):
    from crysp.bits import Bits as B
    m, n = case['m'], case['n']
    a = (PAT[case['pa']](rng, m), m); b = (PAT[case['pb']](rng, n), n)
    ctx.cls(('big', m, n))
    binops(ctx, B, a, b)
    intops(ctx, B, a, rng.getrandbits(rng.choice([1, 8, 31, 32, 33, 64, 65, m, m + 1])))
    amounts = sorted({0, 1, 7, 8, 31, 32, 33, m // 2, m - 1, m} & set(range(0, m + 1)))
    unary(ctx, B, a, amounts)
    bits = bl(a)
    A = B(*a)
    for _ in range(12):
        sl = slice(rng.choice([None, rng.randrange(-m - 2, m + 3)]), rng.choice([None, rng.randrange(-m - 2, m + 3)]), rng.choice([None, 1, 1, 2, 3, 7, 8, -1, -5, 32, 64]))
        res_ok(ctx, 'getitem', call(lambda: A[sl]), fl(bits[sl]), idx=str(sl), a=a)
        sel = list(range(m))[sl]; s = len(sel)
        v = rng.getrandbits(s) if s else 0
        w = list(bits)
        for j, p in enumerate(sel):
            w[p] = (v >> j) & 1
        Z = B(*a); r = call(Z.__setitem__, sl, B(v, s))
        ctx.check('setitem', not is_exc(r) and (Z.ival, Z.size) == fl(w) and Z.mask == M(m), r if is_exc(r) else vs(Z), fl(w), idx=str(sl), v=v, a=a)

def run_resalias(case, ctx, rng):
    """history across objects: a result (of any operator, of b[i], b[i:j], b[list], split, extension) is mutated in
    place; the operands, later reads of the same operands and sibling vectors must be unaffected"""
    from crysp.bits import Bits as B
    from crysp.utils.operators import rol, ror, concat as concat_
    n = case['n']
    a = (rng.getrandbits(n), n); b = (rng.getrandbits(n), n)
    A, Bv, Sib = B(*a), B(*b), B(*a)
    ctx.cls(('resalias', n, case['j'] % 7))
    i = rng.randrange(n)
    exprs = [('a[i]', lambda: A[i], (((a[0] >> i) & 1), 1)), ('a[-1]', lambda: A[-1], ((a[0] >> (n - 1)) & 1, 1)), ('a[0:n]', lambda: A[0:n], a), ('a[[i]]', lambda: A[[i]], (((a[0] >> i) & 1), 1)),
             ('a&b', lambda: A & Bv, m_bin('&', a, b)), ('a|b', lambda: A | Bv, m_bin('|', a, b)), ('a^b', lambda: A ^ Bv, m_bin('^', a, b)), ('a+b', lambda: A + Bv, m_bin('+', a, b)),
             ('a-b', lambda: A - Bv, m_bin('-', a, b)), ('~a', lambda: ~A, m_inv(a)), ('-a', lambda: -A, m_neg(a)), ('a<<1', lambda: A << 1, m_shl(a, 1)), ('a>>1', lambda: A >> 1, m_shr(a, 1)),
             ('a//b', lambda: A // Bv, m_cat(a, b)), ('rol(a,1)', lambda: rol(A, 1), m_rol(a, 1)), ('ror(a,0)', lambda: ror(A, 0), a), ('a.split(n)[0]', lambda: A.split(n)[0], a),
             ('a//empty', lambda: A // B(0, 0), a), ('a//0', lambda: A // 0, a), ('empty//a', lambda: B(0, 0) // A, a), ('a^empty', lambda: A ^ B(0, 0), a), ('a|empty', lambda: A | B(0, 0), a),
             ('a+empty', lambda: A + B(0, 0), a), ('a<<0', lambda: A << 0, a), ('a>>0', lambda: A >> 0, a), ('concat([a])', lambda: B(concat_([A])), a),
             ('Bits(a)', lambda: B(A), a), ('a&a', lambda: A & A, a), ('a|0', lambda: A | 0, a), ('a+0', lambda: A + 0, a)]
    muts = [lambda r: r.__setitem__(0, 1 - r.bit(0)), lambda r: setattr(r, 'size', r.size + 3), lambda r: r.zeroextend(r.size + 5),
            lambda r: r.signextend(r.size + 2), lambda r: r.__setitem__(slice(0, r.size), B(rng.getrandbits(r.size), r.size)), lambda r: setattr(r, 'ival', r.ival ^ 1)]
    for name, f, want in exprs:
        r = call(f)
        det = dict(expr=name, a=a, b=b, i=i)
        if not res_ok(ctx, 'resalias:first-read', r, want, **det):
            continue
        m = call(rng.choice(muts), r)
        # nothing but r may have moved
        okk = (A.ival, A.size, A.mask) == (a[0], n, M(n)) and (Bv.ival, Bv.size, Bv.mask) == (b[0], n, M(n)) and (Sib.ival, Sib.size) == a
        ctx.check('alias-unaffected', okk, (vs(A), vs(Bv), vs(Sib)), (a, b, a), after='mutating the result of ' + name, **det)
        # the same expression, and single-bit reads on a sibling, still give the model's value
        res_ok(ctx, 'resalias:second-read', call(f), want, **det)
        j = rng.randrange(n)
        res_ok(ctx, 'resalias:sibling-read', call(lambda: Sib[j]), ((a[0] >> j) & 1, 1), j=j, **det)
        if (A.ival, A.size) != a or (Bv.ival, Bv.size) != b:
            A, Bv = B(*a), B(*b)

def run_history(case, ctx, rng):
    """one vector mutated step by step; an alias taken before each step must not move"""
    from crysp.bits import Bits as B
    n = case['n']
    x = rng.getrandbits(n) if n else 0
    Z = B(x, n)
    bits = bl((x, n))
    ctx.cls(('history', n, min(case['steps'], 4)))
    log = []
    for step in range(case['steps']):
        snap = B(Z); snapv = (Z.ival, Z.size)
        other = B(rng.getrandbits(8), 8)
        n = len(bits)
        kind = rng.choice(['set1', 'slice', 'step', 'list', 'size', 'zext', 'sext', 'iadd', 'ixor'] if n else ['size', 'zext', 'ixor'])
        if kind == 'set1':
            i = rng.randrange(-n, n); v = rng.getrandbits(1)
            r = call(Z.__setitem__, i, v); bits[i] = v; log.append(('b[%d]=%d' % (i, v)))
        elif kind == 'slice':
            i = rng.randrange(0, n); j = rng.randrange(i, n + 1)
            v = rng.getrandbits(j - i) if j > i else 0
            r = call(Z.__setitem__, slice(i, j), B(v, j - i))
            for t in range(j - i): bits[i + t] = (v >> t) & 1
            log.append('b[%d:%d]=%d' % (i, j, v))
        elif kind == 'step':
            sl = slice(rng.choice([None, rng.randrange(-n, n)]), rng.choice([None, rng.randrange(-n, n + 1)]), rng.choice([2, 3, -1, -2]))
            sel = list(range(n))[sl]; v = rng.getrandbits(len(sel)) if sel else 0
            r = call(Z.__setitem__, sl, B(v, len(sel)))
            for t, p in enumerate(sel): bits[p] = (v >> t) & 1
            log.append('b[%s]=%d' % (sl, v))
        elif kind == 'list':
            L = [rng.randrange(n) for _ in range(rng.randrange(1, 6))]; v = rng.getrandbits(len(L))
            r = call(Z.__setitem__, L, B(v, len(L)))
            for t, p in enumerate(L): bits[p] = (v >> t) & 1
            log.append('b[%s]=%d' % (L, v))
        elif kind == 'size':
            m = rng.choice([max(0, n - 1), n + 1, n + 9, max(0, n - 5), n])
            r = call(setattr, Z, 'size', m); bits = (bits + [0] * m)[:m]; log.append('size=%d' % m)
        elif kind == 'zext':
            m = n + rng.randrange(0, 9)
            r = call(Z.zeroextend, m); bits = bits + [0] * (m - n); log.append('zeroextend(%d)' % m)
        elif kind == 'sext':
            m = n + rng.randrange(0, 9)
            r = call(Z.signextend, m); bits = bits + [bits[-1]] * (m - n); log.append('signextend(%d)' % m)
        elif kind == 'iadd':
            r = call(lambda: Z + other)
            if not is_exc(r):
                Z = r
            bits = bl(m_bin('+', fl(bits), (other.ival, 8))); log.append('b=b+%d' % other.ival)
        elif kind == 'ixor':
            r = call(lambda: Z ^ other)
            if not is_exc(r):
                Z = r
            bits = bl(m_bin('^', fl(bits), (other.ival, 8))); log.append('b=b^%d' % other.ival)
        want = fl(bits)
        ok = not is_exc(r) and (Z.ival, Z.size) == want and Z.mask == M(len(bits))
        ctx.check('history-step', ok, r if is_exc(r) else (Z.ival, Z.size, Z.mask), want, log=log[-6:], start=(x, case['n']))
        ctx.check('alias-unaffected', (snap.ival, snap.size) == snapv, (snap.ival, snap.size), snapv, log=log[-3:])
        if is_exc(r) or not ok:
            break

def classify(case, fail):
    return None
