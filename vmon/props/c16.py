"""C16  Poly: element-wise ring arithmetic, sequence indexing, consistent re-chunking."""
import itertools
from vmon.core import call, is_exc

ID = 'C16'
RULE = ('class = (operation, ring k, dim a, dim b); all vectors of dim 0..4 over k in {1,2,3} enumerated for unary ops/indexing/assignment/'
        'split/pack; all ordered pairs for k in {1,2} and for k=3 up to dim 2 (quick) / 3 (thorough); k in {0,4,8,16,31,32,33,64} and dims '
        '0..20 sampled incl. unequal dims and the empty vector; oracle = list model over Z/2^k; both operand orders executed')
ASSUMPTIONS = ['list model over Z/2^k (k=0: the integers)']
ANCHORS = [('poly.py', 'SubPoly.__and__'), ('poly.py', 'SubPoly.__or__'), ('poly.py', 'SubPoly.__xor__'), ('poly.py', 'SubPoly.__add__'),
           ('poly.py', 'SubPoly.__sub__'), ('poly.py', 'SubPoly.__neg__'), ('poly.py', 'SubPoly.__lshift__'), ('poly.py', 'SubPoly.__rshift__'),
           ('poly.py', 'SubPoly.e'), ('poly.py', 'Poly.__getitem__'), ('poly.py', 'SubPoly.__setitem__'), ('poly.py', 'SubPoly.indices'),
           ('poly.py', 'SubPoly.span'), ('poly.py', 'SubPoly.__floordiv__'), ('poly.py', 'SubPoly.split'), ('poly.py', 'SubPoly.dim')]
REQUIRED = ['op:+', 'op:-', 'op:^', 'op:&', 'op:|', 'op:neg', 'op:<<', 'op:>>', 'law:a+(-a)==0', 'commutes', 'getitem', 'setitem', 'concat',
            'split', 'pack', 'operand-unchanged', 'empty-stays-empty', 'history:read', 'history:write', 'history:redim']
NSHARDS = 13
SAN = {'quick': (3, 8), 'thorough': (3, 4)}
S3_EVERY = 50
S7 = ('thorough',)          # the repository's own suite re-run under S1/S3 as a second workload

def selftest():
    assert m_op('+', [3, 1], [1], 2) == [0, 1] and m_op('-', [0], [1, 1], 2) == [3, 3] and m_op('+', [], [], 3) == []
    assert m_split([0x1234], 16, 8, False) == [0x34, 0x12] and m_split([0x1234], 16, 8, True) == [0x12, 0x34]
    return 'list model ok'

def red(v, k): return v & ((1 << k) - 1) if k else v
def m_op(op, a, b, k):
    n = max(len(a), len(b))
    a = a + [0] * (n - len(a)); b = b + [0] * (n - len(b))
    f = {'+': lambda x, y: x + y, '-': lambda x, y: x - y, '^': lambda x, y: x ^ y, '&': lambda x, y: x & y, '|': lambda x, y: x | y}[op]
    return [red(f(x, y), k) for x, y in zip(a, b)]
def m_split(a, k, ks, big):
    out = []
    for x in a:
        pcs = [(x >> i) & ((1 << min(ks, k - i)) - 1) for i in range(0, k, ks)]
        out += pcs[::-1] if big else pcs
    return out
def m_pack(a, k):
    return b''.join(x.to_bytes((k + 7) // 8, 'little') for x in a)

OPS = (('+', lambda x, y: x + y), ('-', lambda x, y: x - y), ('^', lambda x, y: x ^ y), ('&', lambda x, y: x & y), ('|', lambda x, y: x | y))

def vecs(k, dmax):
    out = []
    for d in range(dmax + 1):
        out += [list(t) for t in itertools.product(range(1 << k), repeat=d)]
    return out

def cases(tier, rng):
    for k in (1, 2, 3):
        V = vecs(k, 4)
        for i in range(0, len(V), 16):
            yield {'k': 'unary', 'ring': k, 'lo': i, 'hi': min(len(V), i + 16)}
    for k, dmax in ((1, 4), (2, 4), (3, 2 if tier == 'quick' else 3)):
        V = vecs(k, dmax)
        chunk = 4 if k < 3 else 2
        for i in range(0, len(V), chunk):
            yield {'k': 'pairs', 'ring': k, 'dmax': dmax, 'lo': i, 'hi': min(len(V), i + chunk)}
    for j in range(600 if tier == 'quick' else 12000):
        yield {'k': 'history', 'ring': [1, 2, 3, 8, 32, 0][j % 6], 'steps': 2 + j % 9, 'j': j}
    ns = 3000 if tier == 'quick' else 60000
    rings = [0, 4, 8, 16, 31, 32, 33, 64, 5, 63]
    for j in range(ns):
        yield {'k': 'sample', 'ring': rings[j % len(rings)], 'da': [0, 1, 2, 3, 5, 8, 16, 20, 4, 7][(j // 10) % 10], 'db': [0, 1, 4, 20, 2, 9, 3, 16][(j // 100) % 8], 'pat': j % 4}

def run(case, ctx, rng):
    globals()['run_' + case['k']](case, ctx, rng)

def mk(P, a, k):
    return P(list(a), k)

def same(ctx, mon, r, want, k, **det):
    """result is a Poly over the same ring with exactly the model's coefficients (ints inside the ring)"""
    if is_exc(r) or r is None or not hasattr(r, 'ival'):
        return ctx.check(mon, False, r, want, ring=k, **det)
    iv = r.ival
    ok = (list(iv) == want and r.size == k and all(isinstance(x, int) for x in iv) and r.dim == len(want))
    return ctx.check(mon, ok, (list(iv), r.size), (want, k), ring=k, **det)

def binary(ctx, P, a, b, k):
    A, Bv = mk(P, a, k), mk(P, b, k)
    det = dict(a=a, b=b)
    for op, f in OPS:
        want = m_op(op, a, b, k)
        r = call(f, A, Bv)
        same(ctx, 'op:' + op, r, want, k, **det)
        if not a and not b:
            ctx.check('empty-stays-empty', not is_exc(r) and r is not None and r.dim == 0, r if is_exc(r) else list(r.ival or []), [], op=op, ring=k)
        if op != '-':
            r2 = call(f, Bv, A)
            ok = not is_exc(r) and not is_exc(r2) and list(r.ival) == list(r2.ival)
            ctx.check('commutes', ok, r2 if is_exc(r2) or is_exc(r) else list(r2.ival), want, op=op, ring=k, **det)
    same(ctx, 'concat', call(lambda: A // Bv), a + b, k, **det)
    ctx.check('operand-unchanged', list(A.ival) == a and list(Bv.ival) == b and A.size == k and Bv.size == k, (list(A.ival), list(Bv.ival)), (a, b))
    # augmented forms: the same values, and whoever still holds the old left operand sees it unchanged
    import operator as OP
    for op, f in (('+', OP.iadd), ('-', OP.isub), ('^', OP.ixor), ('&', OP.iand), ('|', OP.ior)):
        X = mk(P, a, k); keep = X
        r = call(f, X, Bv)
        same(ctx, 'op:' + op, r, m_op(op, a, b, k), k, form=op + '=', **det)
        ctx.check('operand-unchanged', list(keep.ival or []) == a and list(Bv.ival or []) == b, (list(keep.ival or []), list(Bv.ival or [])), (a, b), form=op + '=', alias_of_left_operand=True)
    # two vectors built from one list the caller still owns: independent of each other and of the list
    if a:
        L = list(a); V1 = P(L, k); V2 = P(L, k)
        r = call(V1.__setitem__, 0, red(a[0] + 1, k) if k else a[0] + 1)
        ctx.check('operand-unchanged', list(V2.ival) == a and L == a, (list(V2.ival), L), (a, a), built_from='the same list; the other vector was assigned to')
        L[0] = red(L[0] + 1, k) if k else L[0] + 1; L.append(1)
        ctx.check('operand-unchanged', list(V2.ival) == a, list(V2.ival), a, built_from='a list the caller changed afterwards')
        r = call(lambda: V2 ^ Bv)
        same(ctx, 'op:^', r, m_op('^', a, b, k), k, built_from='a list the caller changed afterwards', **det)

def unary(ctx, P, a, k, rng, full=True):
    from crysp.bits import pack
    A = mk(P, a, k)
    n = len(a)
    det = dict(a=a)
    want = [red(-x, k) for x in a]
    r = call(lambda: -A)
    same(ctx, 'op:neg', r, want, k, **det)
    s = call(lambda: A + (-A))
    same(ctx, 'law:a+(-a)==0', s, [0] * n, k, **det)
    if not a:
        ctx.check('empty-stays-empty', not is_exc(r) and r.dim == 0, r if is_exc(r) else list(r.ival or []), [], op='neg', ring=k)
    for sh in ((0, 1, 2, k - 1, k, k + 1) if k else (0, 1, 5, 70)):
        if sh < 0:
            continue
        same(ctx, 'op:<<', call(lambda: A << sh), [red(x << sh, k) for x in a], k, sh=sh, **det)
        same(ctx, 'op:>>', call(lambda: A >> sh), [x >> sh for x in a], k, sh=sh, **det)
    # what an operator returns is a new vector: assigning into the result leaves the operand alone (also for the neutral cases
    # a<<0, a>>0, a+0, a^0, a|0, a&a, --a)
    if n:
        zero = mk(P, [0] * n, k)
        for nm, f in (('<<0', lambda: A << 0), ('>>0', lambda: A >> 0), ('+0', lambda: A + zero), ('^0', lambda: A ^ zero), ('|0', lambda: A | zero), ('&self', lambda: A & A), ('neg neg', lambda: -(-A)), ('-0', lambda: A - zero)):
            r = call(f)
            if not is_exc(r) and r is not None and r.ival:
                call(r.__setitem__, 0, red(a[0] + 1, k) if k else a[0] + 1)
                ctx.check('operand-unchanged', list(A.ival) == a and list(zero.ival) == [0] * n, (list(A.ival), list(zero.ival)), (a, [0] * n), after='assigning into the result of a' + nm)
    # e(i): zero beyond the dimension
    for i in (0, n - 1, n, n + 3):
        if i >= 0:
            e = call(A.e, i)
            ctx.eq('e(i)', int(e) if not is_exc(e) else e, a[i] if i < n else 0, i=i, ring=k, **det)
    # what a read hands out belongs to the caller: changing it changes no vector (this one, or another one with equal coefficients)
    if k and n:
        twin = mk(P, a, k)
        for x in [call(A.e, 0), call(A.e, n - 1)] + list(A)[:2]:
            if not is_exc(x) and hasattr(x, 'ival'):
                x.ival = x.ival ^ 1; x.size = x.size + 3
        for g in (call(lambda: A[0]), call(lambda: A[0:n]), call(lambda: A[[0]])):
            if not is_exc(g) and g is not None and g.ival:
                g.ival[0] = red(g.ival[0] + 1, k)
        same(ctx, 'getitem', call(lambda: A[0:n]), a, k, idx='[0:n] after the caller changed elements it had read', **det)
        same(ctx, 'getitem', call(lambda: twin[0:n]), a, k, idx='[0:n] of an equal vector after the caller changed elements read from another', **det)
        ctx.eq('e(i)', [int(A.e(i)) for i in range(n)], a, after='the caller changed elements it had read', ring=k, **det)
        same(ctx, 'op:^', call(lambda: A ^ twin), [0] * n, k, after='the caller changed elements it had read', **det)
    # indexing
    for i in range(-n, n):
        same(ctx, 'getitem', call(lambda: A[i]), [a[i]], k, idx=i, **det)
        Z = mk(P, a, k); v = red(a[i] + 1, k); r = call(Z.__setitem__, i, v)
        w = list(a); w[i] = v
        same(ctx, 'setitem', Z if not is_exc(r) else r, w, k, idx=i, v=v, **det)
    rngs = [(st, sp, step) for st in (None, 0, 1, 2, n - 1, n) for sp in (None, 0, 1, 2, n - 1, n) for step in (None, 1, 2, 3)
            if (st is None or 0 <= st <= n) and (sp is None or 0 <= sp <= n)]
    if not full:
        rngs = rng.sample(rngs, min(len(rngs), 12))
    for st, sp, step in rngs:
        sl = slice(st, sp, step)
        want = a[sl]
        same(ctx, 'getitem', call(lambda: A[sl]), want, k, idx=str(sl), **det)
        sel = list(range(n))[sl]
        if sel:
            vals = [red(a[p] + 1 + j, k) for j, p in enumerate(sel)]
            w = list(a)
            for p, v in zip(sel, vals): w[p] = v
            for form, val in (('list', list(vals)), ('tuple', tuple(vals)), ('poly', mk(P, vals, k))):
                Z = mk(P, a, k); r = call(Z.__setitem__, sl, val)
                same(ctx, 'setitem', Z if not is_exc(r) else r, w, k, idx=str(sl), v=vals, form=form, **det)
    if n and k:
        from crysp.bits import Bits
        for wv in (k, k + 5, 2 * k):
            v = rng.getrandbits(wv) | (1 << (wv - 1)); i = rng.randrange(-n, n)
            Z = mk(P, a, k); r = call(Z.__setitem__, i, Bits(v, wv))
            w = list(a); w[i] = red(v, k)
            same(ctx, 'setitem', Z if not is_exc(r) else r, w, k, idx=i, v='Bits(%d,%d)' % (v, wv), **det)
        vals = [rng.getrandbits(k + 3) for _ in range(n)]
        Z = mk(P, a, k); r = call(Z.__setitem__, slice(None), [Bits(x, k + 3) for x in vals])
        same(ctx, 'setitem', Z if not is_exc(r) else r, [red(x, k) for x in vals], k, idx='[:]', v='list of wider Bits', **det)
    if n:
        for nm, it in (('reversed(range)', lambda: reversed(range(n))), ('generator', lambda: (i for i in range(0, n, 2))), ('range', lambda: range(n - 1, -1, -1)), ('map', lambda: map(int, [0, n - 1]))):
            want = [a[i] for i in it()]
            same(ctx, 'getitem', call(lambda: A[it()]), want, k, idx=nm, **det)
    for st, sp, step in ((-1, n + 2, 1), (-2, n + 4, 1), (-n, n + 1, 2), (-1, 2 * n + 3, 1), (-2, n + 1, 3)):
        if n and -st <= n:
            idx = range(n + st, sp, step)          # a negative start counts from the end of the vector (Python slice semantics), the stop may overhang
            want = [(a[i] if i < n else 0) for i in idx]
            same(ctx, 'getitem', call(lambda: A[st:sp:step]), want, k, idx='%d:%d:%d (negative start, overhanging stop)' % (st, sp, step), **det)
    for st, sp, step in ((0, n + 3, 1), (0, n + 3, 2), (1, n + 4, 2), (n, n + 2, 1), (0, 2 * n + 1, 3), (1, n + 1, 1)):
        if st <= n:
            want = [(a[i] if i < n else 0) for i in range(st, sp, step)]      # positions past the end read as zero (SubPoly.e)
            same(ctx, 'getitem', call(lambda: A[st:sp:step]), want, k, idx='%d:%d:%d (overhanging)' % (st, sp, step), **det)
    if n:
        lists = [[0], [n - 1], list(range(n)), list(range(n - 1, -1, -1)), [0, 0, n - 1], [rng.randrange(n) for _ in range(rng.randrange(1, n + 3))]]
        for L in [[-1], [-1, 0], [-n, n - 1, -1], [rng.randrange(-n, n) for _ in range(n + 1)]]:
            same(ctx, 'getitem', call(lambda: A[L]), [a[i] for i in L], k, idx=L, negative_entries=True, **det)
        for L in lists:
            same(ctx, 'getitem', call(lambda: A[L]), [a[i] for i in L], k, idx=L, **det)
            same(ctx, 'getitem', call(lambda: A[tuple(L)]), [a[i] for i in L], k, idx=L, **det)
            vals = [red(a[p] + 1 + j, k) for j, p in enumerate(L)]
            w = list(a)
            for p, v in zip(L, vals): w[p] = v
            Z = mk(P, a, k); r = call(Z.__setitem__, L, list(vals))
            same(ctx, 'setitem', Z if not is_exc(r) else r, w, k, idx=L, v=vals, **det)
        # a sequence value with fewer coefficients than the selection (down to none) is zero-extended over the selection
        for sel, idx in ((list(range(1, n)), slice(1, n)), (list(range(n)), slice(None)), (list(range(0, n, 2)), slice(0, n, 2)), (list(range(n - 1, -1, -1)), list(range(n - 1, -1, -1)))):
            for m in range(0, len(sel)):
                vals = [red(7 + 3 * j, k) for j in range(m)]
                w = list(a)
                for t, p in enumerate(sel): w[p] = vals[t] if t < m else 0
                Z = mk(P, a, k); r = call(Z.__setitem__, idx, list(vals))
                same(ctx, 'setitem', Z if not is_exc(r) else r, w, k, idx=str(idx), v=vals, shorter_value=True, **det)
    if k:
        for ks in [d for d in range(1, k + 1) if k % d == 0]:
            for big in (False, True):
                r = call(lambda: A.split(ks, big))
                same(ctx, 'split', r, m_split(a, k, ks, big), ks, newsize=ks, bigend=big, **det)
        ctx.eq('pack', call(pack, A), m_pack(a, k), ring=k, **det)
    ctx.eq('len/dim/iter', call(lambda: (len(A), A.dim, [int(x) for x in A])), (n, n, a), **det)
    ctx.check('operand-unchanged', list(A.ival) == a and A.size == k, list(A.ival), a)

def run_unary(case, ctx, rng):
    from crysp.poly import Poly as P
    k = case['ring']
    V = vecs(k, 4)
    ctx.cls(('unary', k))
    for a in V[case['lo']:case['hi']]:
        unary(ctx, P, a, k, rng)
    ctx.exhaustive['unary/index/assign/split/pack on all vectors of dim 0..4 over Z/2^%d' % k] += case['hi'] - case['lo']

def run_pairs(case, ctx, rng):
    from crysp.poly import Poly as P
    k = case['ring']
    V = vecs(k, case['dmax'])
    cnt = 0
    for a in V[case['lo']:case['hi']]:
        ctx.cls(('pairs', k, len(a)))
        for b in V:
            binary(ctx, P, a, b, k); cnt += 1
    ctx.exhaustive['binary operators on all ordered pairs of dim 0..%d over Z/2^%d' % (case['dmax'], k)] += cnt

def run_history(case, ctx, rng):
    """one vector used through a sequence of reads, slice/list assignments and re-dimensionings; compared with the list
    model after every step (an index expression must be resolved against the *current* dimension each time)"""
    from crysp.poly import Poly as P
    k = case['ring']
    n = rng.randrange(1, 7)
    a = fill(rng, n, k, 0)
    A = mk(P, a, k)
    ctx.cls(('history', k, min(case['steps'], 5)))
    log = []
    slices = [slice(1, None), slice(None), slice(-1, None), slice(None, None, 2), slice(0, 2), slice(None, -1), slice(1, None, 2), slice(-2, None)]
    for step in range(case['steps']):
        op = rng.choice(['read', 'read', 'write', 'dim', 'dim', 'setint', 'concat-assign'])
        n = len(a)
        ok_slices = [x for x in slices if x.stop is None or x.stop <= n]        # slices stay within the vector (see DESIGN: crysp zero-extends past the end)
        if op == 'read':
            sl = rng.choice(ok_slices)
            want = a[sl]
            got = call(lambda: A[sl]); log.append('read a[%s]' % (sl,))
            same(ctx, 'history:read', got, want, k, log=log[-6:], start=case['j'])
        elif op == 'write':
            sl = rng.choice(ok_slices)
            sel = list(range(n))[sl]
            if not sel: continue
            vals = [red(rng.getrandbits(k or 9), k) for _ in sel]
            r = call(A.__setitem__, sl, list(vals)); log.append('a[%s]=%s' % (sl, vals))
            for p_, v in zip(sel, vals): a[p_] = v
            same(ctx, 'history:write', A if not is_exc(r) else r, a, k, log=log[-6:])
        elif op == 'dim':
            m = rng.choice([max(1, n - 1), n + 1, n + 3, max(1, n - 2), n])
            r = call(setattr, A, 'dim', m); log.append('dim=%d' % m)
            a = (a + [0] * m)[:m]
            same(ctx, 'history:redim', A if not is_exc(r) else r, a, k, log=log[-6:])
        elif op == 'setint':
            i = rng.randrange(-n, n); v = red(rng.getrandbits(k or 9), k)
            r = call(A.__setitem__, i, v); a[i] = v; log.append('a[%d]=%d' % (i, v))
            same(ctx, 'history:write', A if not is_exc(r) else r, a, k, log=log[-6:])
        else:
            L = [rng.randrange(n) for _ in range(rng.randrange(1, 4))]
            same(ctx, 'history:read', call(lambda: A[L]), [a[i] for i in L], k, log=log[-6:] + ['read a[%s]' % L])

def fill(rng, n, k, pat):
    kk = k or 70
    if pat == 0: return [rng.getrandbits(kk) for _ in range(n)]
    if pat == 1: return [0] * n
    if pat == 2: return [(1 << kk) - 1] * n
    return [1 << rng.randrange(kk) for _ in range(n)]

def run_sample(case, ctx, rng):
    from crysp.poly import Poly as P
    k = case['ring']
    a = fill(rng, case['da'], k, case['pat']); b = fill(rng, case['db'], k, (case['pat'] + 1) % 4)
    if k == 0 and case['pat'] == 0:
        a = [x - (1 << 69) for x in a]          # negative integers in ring Z
    ctx.cls(('sample', k, case['da'], case['db']))
    binary(ctx, P, a, b, k)
    binary(ctx, P, b, a, k)
    unary(ctx, P, a, k, rng, full=False)

def classify(case, fail):
    return None
