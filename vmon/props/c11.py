"""C11  BLAKE and BLAKE2 digests equal their specifications for all inputs, parameters."""
import hashlib
from vmon.core import call, is_exc, pattern
from vmon.refs import blake as rblake, blake2 as rb2

ID = 'C11'
RULE = ('class = (variant, |M| mod blocksize, floor(|M|/blocksize) in 0..4, L mod 8, surplus, parameter class); BLAKE: every byte length '
        '0..2 blocks+2 plus 3,4 blocks, bit lengths with salts {0,1,2^k,max,random}; BLAKE2: outlen 1..32/64, salt/person, tree parameters at '
        '0,1,max,random, key block; per-block (counter, final flag) events from hook H2 checked offline against the specification; counters '
        'crossing the low word via preset state; oracle = own BLAKE reference, hashlib.blake2b/blake2s, own BLAKE2 reference')
ASSUMPTIONS = ['hashlib.blake2b/blake2s', 'own BLAKE reference (8 submission vectors)', 'own BLAKE2 reference (self-tested against hashlib)']
ANCHORS = [('blake.py', 'Blake.update'), ('blake.py', 'Blake.initstate'), ('padding.py', 'Blakepadding.lastblock'), ('blake.py', 'Blake2.paramblock'),
           ('blake.py', 'Blake2.treeinit'), ('blake.py', 'Blake2.iterblocks'), ('blake.py', 'Blake2.update'), ('blake.py', 'Blake2.initstate')]
REQUIRED = ['siblings:digest==reference', 'blake==reference', 'blake2==hashlib', 'digest-length', 'H2:counter-trace', 'H2:final-flag-trace', 'counter-preset:blake',
            'counter-preset:blake2']
NSHARDS = 14
SAN = {'quick': (2, 60), 'thorough': (2, 60)}

def selftest():
    return rblake.selftest() + '; ' + rb2.selftest()

def cases(tier, rng):
    for size in (224, 256, 384, 512):
        B = 128 if size > 256 else 64
        w = 64 if size > 256 else 32
        lens = list(range(0, 2 * B + 3)) + [3 * B - 1, 3 * B, 4 * B, 4 * B + 1]
        for n in lens:
            for pat in (('rand',) if tier == 'quick' else ('rand', 'zero', 'ones')):
                yield {'k': 'blake', 'size': size, 'n': n, 'L': None, 'sur': 0, 'salt': 'zero' if n % 3 else 'rand', 'pat': pat, 'single': n % 5 == 0}
        for n in (4095, 4096, 4099) + ((65539,) if size in (256, 512) else ()):          # long inputs
            yield {'k': 'blake', 'size': size, 'n': n, 'L': None, 'sur': 0, 'salt': 'rand' if n % 2 else 'zero', 'pat': 'rand', 'single': False}
        for n in (1, 5, B - 1, B, B + 1, 2 * B + 3):
            yield {'k': 'blake', 'size': size, 'n': n, 'L': 0, 'sur': 0, 'salt': 'zero' if n % 2 else 'rand', 'pat': 'rand', 'single': n == 5}
        spill = B - w // 4 - 1
        cs = {1, spill - 1, spill, spill + 1, B - 1, B, B + 1, B + spill, 2 * B}
        for n in sorted(cs):
            for r in range(0, 8):
                for salt in ('zero', 'one', 'pow', 'max', 'rand'):
                    if r == 0 and salt == 'zero':
                        continue
                    yield {'k': 'blake', 'size': size, 'n': n, 'L': 8 * n - r, 'sur': r % 3, 'salt': salt, 'pat': 'rand', 'single': False}
        if tier == 'thorough':
            for L in range(1, 2 * 8 * B + 9):
                yield {'k': 'blake', 'size': size, 'n': (L + 7) // 8, 'L': L, 'sur': L % 2, 'salt': 'rand', 'pat': 'rand', 'single': False}
        for P in (0, 8 * B):
            for tail in (B + 1, 2 * B, 2 * B + 1, 3 * B + 5):
                yield {'k': 'preset-blake', 'size': size, 'preset': P, 'nblk': 1 + tail % 2, 'tail': tail}
        top = 32 if size <= 256 else 64
        for kb in (-2, -1, 0, 1):
            for tail in (0, 1, B - w // 4 - 1, B - 1):
                for nblk in (1, 2):
                    yield {'k': 'preset-blake', 'size': size, 'preset': (1 << top) + kb * 8 * B, 'nblk': nblk, 'tail': tail}
    for j in range(20 if tier == 'quick' else 150):
        yield {'k': 'siblings', 'j': j}
    for size in (256, 512):
        B = 128 if size == 512 else 64
        omax = B // 2
        for n in list(range(0, 2 * B + 2)) + [3 * B - 1, 3 * B, 3 * B + 1, 4 * B, 4 * B + 1, 5 * B, 4095, 4096, 4099, 65535, 65536, 65539, 131072]:
            yield {'k': 'blake2', 'size': size, 'n': n, 'pc': 'default', 'pat': 'rand', 'single': n % 4 == 0}
        for ol in range(1, omax + 1):
            yield {'k': 'blake2', 'size': size, 'n': [0, 3, B, B + 1][ol % 4], 'pc': 'outlen', 'outlen': ol, 'pat': 'rand', 'single': ol % 7 == 0}
        for pc in ('short-pers', 'short-salt', 'short-pers+salt'):
            for ln in range(1, (16 if size == 512 else 8)):
                yield {'k': 'blake2', 'size': size, 'n': [0, 70, 200][ln % 3], 'pc': pc, 'v': str(ln), 'pat': 'rand', 'single': False}
        for pc in ('salt', 'pers', 'salt+pers', 'fanout', 'depth', 'leafl', 'noffset', 'ndepth', 'inner', 'tree-all', 'key'):
            for v in ('0', '1', 'max', 'rand', 'rand'):
                for n in (0, 1, B, 2 * B + 5):
                    yield {'k': 'blake2', 'size': size, 'n': n, 'pc': pc, 'v': v, 'pat': 'rand', 'single': False}
        for reps in range(4 if tier == 'quick' else 200):
            yield {'k': 'blake2', 'size': size, 'n': 'rand', 'pc': 'all-rand', 'pat': 'rand', 'single': False}
        for P in (0, B, (1 << 32) - B):
            for tail in (B + 1, 2 * B, 2 * B + 1, 3 * B + 5):
                yield {'k': 'preset-blake2', 'size': size, 'preset': P, 'nblk': 1 + tail % 2, 'tail': tail}
        top = 32 if size == 256 else 64
        for kb in (-2, -1, 0, 1):
            for tail in (1, B // 2, B):
                for nblk in (1, 2):
                    yield {'k': 'preset-blake2', 'size': size, 'preset': (1 << top) + kb * B, 'nblk': nblk, 'tail': tail}

def run(case, ctx, rng):
    globals()['run_' + case['k'].replace('-', '_')](case, ctx, rng)

def h2_present():
    import crysp.blake as BK
    return bool(getattr(BK, '_verif_on', False)) and hasattr(BK, '_verif_emit')

def with_trace(f):
    """run f with hook H2 collecting the per-block (counter, flag) events"""
    import crysp.blake as BK
    ev = []
    BK._verif_emit = lambda variant, size, t, f0: ev.append((variant, size, t, f0))
    try:
        r = call(f)
    finally:
        BK._verif_emit = None
    return r, ev

def salt_of(rng, c, w):
    return {'zero': 0, 'one': 1, 'pow': 1 << rng.randrange(4 * w), 'max': (1 << (4 * w)) - 1}.get(c) if c != 'rand' else rng.getrandbits(4 * w)

def run_blake(case, ctx, rng):
    import crysp.blake as BK
    size, n, L, sur = case['size'], case['n'], case['L'], case['sur']
    B = 128 if size > 256 else 64; w = 64 if size > 256 else 32
    M = pattern(rng, n + sur, case['pat'])
    salt = salt_of(rng, case['salt'], w)
    LL = 8 * n if L is None else L
    ctx.cls(('blake', size, LL % (8 * B), min(LL // (8 * B), 4), LL % 8, sur, case['salt']))
    h = getattr(BK, 'blake%d' % size) if case['single'] else BK.Blake(size)
    if L is None and salt == 0:
        f = lambda: h(M)
    elif L is None:
        f = lambda: h(M, salt)
    else:
        f = lambda: h(M, salt, L) if rng.random() < .5 else h(M, s=salt, bitlen=L)
    got, ev = with_trace(f)
    want_t = []
    want = rblake.blake(size, M, salt, LL, trace=want_t)
    det = dict(size=size, n=n, L=L, salt=salt, M=M, singleton=case['single'])
    ctx.eq('blake==reference', got, want, **det)
    if not is_exc(got):
        ctx.eq('digest-length', len(got), size // 8, **det)
        if h2_present():
            ctx.eq('H2:counter-trace', [e[2] for e in ev], want_t, **det)
        else:
            ctx.notes['hook H2 absent: trace not observed'] += 1
    if L is None and n % 3 == 0 and not case['single']:
        from vmon.core import mutable_arg
        hb = BK.Blake(size)
        mutable_arg(ctx, 'blake==reference', (lambda buf: hb(buf) if salt == 0 else hb(buf, salt)), M, want, one_object=True, **det)

def b2params(rng, case, size):
    """returns (crysp kwargs, hashlib kwargs, key)"""
    big = size == 512
    l = 16 if big else 8
    omax = 64 if big else 32
    pc, v = case['pc'], case.get('v')
    ck, hk, key = {}, {}, None
    def val(maxv):
        return {'0': 0, '1': 1, 'max': maxv}.get(v, None) if v in ('0', '1', 'max') else rng.randrange(maxv + 1)
    def bts(n):
        return {'0': bytes(n), '1': b'\x01' + bytes(n - 1), 'max': b'\xff' * n}.get(v) if v in ('0', '1', 'max') else rng.randbytes(n)
    if pc == 'outlen':
        ck['outlen'] = hk['digest_size'] = case['outlen']
    if pc == 'short-pers':
        ck['pers'] = hk['person'] = rng.randbytes(int(v))
    if pc == 'short-salt':
        ck['salt'] = hk['salt'] = rng.randbytes(int(v))
    if pc == 'short-pers+salt':
        ck['salt'] = hk['salt'] = rng.randbytes(l); ck['pers'] = hk['person'] = rng.randbytes(int(v))
    if pc in ('salt', 'salt+pers'):
        ck['salt'] = hk['salt'] = bts(l)
    if pc in ('pers', 'salt+pers'):
        ck['pers'] = hk['person'] = bts(l)
    if pc == 'fanout': ck['fanout'] = hk['fanout'] = val(255)
    if pc == 'depth': ck['depth'] = hk['depth'] = max(1, val(255))
    if pc == 'leafl': ck['leafl'] = hk['leaf_size'] = val((1 << 32) - 1)
    if pc == 'noffset': ck['noffset'] = hk['node_offset'] = val((1 << (64 if big else 48)) - 1)
    if pc == 'ndepth': ck['ndepth'] = hk['node_depth'] = val(255)
    if pc == 'inner': ck['inner'] = hk['inner_size'] = val(omax)
    if pc in ('tree-all', 'all-rand'):
        ck.update(fanout=rng.randrange(256), depth=rng.randrange(1, 256), leafl=rng.getrandbits(32), noffset=rng.getrandbits(64 if big else 48),
                  ndepth=rng.randrange(256), inner=rng.randrange(omax + 1))
        hk.update(fanout=ck['fanout'], depth=ck['depth'], leaf_size=ck['leafl'], node_offset=ck['noffset'], node_depth=ck['ndepth'], inner_size=ck['inner'])
    if pc == 'all-rand':
        ck['outlen'] = hk['digest_size'] = rng.randrange(1, omax + 1)
        ck['salt'] = hk['salt'] = rng.randbytes(l); ck['pers'] = hk['person'] = rng.randbytes(l)
        if rng.random() < .5:
            key = rng.randbytes(rng.randrange(1, omax + 1))
    if pc == 'key':
        key = bts({'0': 1, '1': 2, 'max': omax}.get(v, rng.randrange(1, omax + 1)))
    if key is not None:
        ck['keylen'] = len(key); hk['key'] = key
    return ck, hk, key

def run_blake2(case, ctx, rng):
    import crysp.blake as BK
    size = case['size']; big = size == 512
    B = 128 if big else 64
    n = case['n'] if case['n'] != 'rand' else rng.choice([0, 1, B - 1, B, B + 1, 2 * B, 3 * B + 7])
    M = pattern(rng, n, case['pat'])
    ck, hk, key = b2params(rng, case, size)
    ctx.cls(('blake2', size, n % B, min(n // B, 4), case['pc'], case.get('v', ''), case.get('outlen', 0) % 8))
    h = (BK.blake2b if big else BK.blake2s) if case['single'] else BK.Blake2(size)
    Min = M if key is None else key.ljust(B, b'\0') + M       # RFC 7693: the padded key is the first block
    if key is not None and n == 0:
        Min = key.ljust(B, b'\0')
    got, ev = with_trace(lambda: h(Min, **ck))
    want = (hashlib.blake2b if big else hashlib.blake2s)(M, **hk).digest()
    det = dict(size=size, n=n, params={k: (v.hex() if isinstance(v, bytes) else v) for k, v in ck.items()}, M=M, singleton=case['single'])
    ctx.eq('blake2==hashlib', got, want, **det)
    if not case['single'] and (n if isinstance(n, int) else 0) % 2 == 0:
        # caller-owned buffers: message, salt and personalization given as bytearrays; one object hashing twice
        from vmon.core import mutable_arg
        bk = {a: (bytearray(v) if isinstance(v, bytes) else v) for a, v in ck.items()}
        hb = BK.Blake2(size)
        if mutable_arg(ctx, 'blake2==hashlib', (lambda buf: hb(buf, **bk)), Min, want, one_object=True, **det):
            ctx.eq('blake2==hashlib', {a: bytes(v) for a, v in bk.items() if isinstance(v, bytearray)}, {a: v for a, v in ck.items() if isinstance(v, bytes)}, arg='salt / pers buffers left unchanged', **det)
    if not is_exc(got):
        ctx.eq('digest-length', len(got), ck.get('outlen', B // 2), **det)
        nb = max(1, -(-len(Min) // B))
        if not h2_present():
            ctx.notes['hook H2 absent: trace not observed'] += 1
            return
        ctx.eq('H2:counter-trace', [e[2] for e in ev], [min(len(Min), (i + 1) * B) for i in range(nb)], **det)
        ctx.eq('H2:final-flag-trace', [1 if e[3] else 0 for e in ev], [0] * (nb - 1) + [1], **det)
        if ev:
            ctx.eq('H2:final-flag-value', ev[-1][3], (1 << (64 if big else 32)) - 1, **det)

def run_siblings(case, ctx, rng):
    from vmon.core import siblings
    import crysp.blake as BK
    ctx.cls(('siblings', case['j'] % 5))
    specs = []
    for size in rng.sample([224, 256, 384, 512], 2):
        M = rng.randbytes(rng.choice([0, 1, 55, 64, 111, 130])); salt = rng.getrandbits(64)
        specs.append(('Blake(%d)' % size, (lambda size=size: BK.Blake(size)), [('h(M)', (lambda o, M=M: o(M)), rblake.blake(size, M)), ('h(M,salt)', (lambda o, M=M, s=salt: o(M, s)), rblake.blake(size, M, salt))]))
    size = rng.choice([224, 256, 384, 512]); M = rng.randbytes(70)
    specs.append(('blake%d singleton' % size, (lambda size=size: getattr(BK, 'blake%d' % size)), [('h(M)', (lambda o, M=M: o(M)), rblake.blake(size, M))]))
    for big in rng.sample([True, False, True], 2):
        H = hashlib.blake2b if big else hashlib.blake2s
        l = 16 if big else 8; om = 64 if big else 32
        M = rng.randbytes(rng.choice([0, 3, 64, 129, 300])); ol = rng.randrange(1, om + 1); sl = rng.randbytes(l)
        specs.append(('Blake2(%d)' % (512 if big else 256), (lambda big=big: BK.Blake2(512 if big else 256)),
                      [('h(M)', (lambda o, M=M: o(M)), H(M).digest()), ('h(M,outlen,salt)', (lambda o, M=M, ol=ol, sl=sl: o(M, outlen=ol, salt=sl)), H(M, digest_size=ol, salt=sl).digest()),
                       ('h(M) again', (lambda o, M=M: o(M)), H(M).digest())]))
    M = rng.randbytes(200)
    specs.append(('blake2s singleton', (lambda: BK.blake2s), [('h(M)', (lambda o, M=M: o(M)), hashlib.blake2s(M).digest()), ('h(M,outlen=5)', (lambda o, M=M: o(M, outlen=5)), hashlib.blake2s(M, digest_size=5).digest())]))
    specs.append(('blake2b singleton', (lambda: BK.blake2b), [('h(M)', (lambda o, M=M: o(M)), hashlib.blake2b(M).digest())]))
    siblings(ctx, rng, 'siblings:digest==reference', specs, late=specs.pop(0))

def run_preset_blake(case, ctx, rng):
    import crysp.blake as BK
    size, P, nblk, tail = case['size'], case['preset'], case['nblk'], case['tail']
    B = 128 if size > 256 else 64
    blocks = rng.randbytes(nblk * B); t = rng.randbytes(tail)
    salt = rng.getrandbits(64)
    ctx.cls(('preset-blake', size, P.bit_length(), (P >> 9) % 5, nblk, tail))
    def stream():
        h = BK.Blake(size)
        h.initstate(salt)
        h.padmethod.bitcnt = P
        h.update(blocks)
        return h.update(t, padding=True)
    got, ev = with_trace(stream)
    tr = []
    want = rblake.blake(size, blocks + t, salt, start_bits=P, trace=tr)
    det = dict(size=size, preset=P, nblk=nblk, tail=tail)
    ctx.eq('counter-preset:blake', got, want, **det)
    if not is_exc(got) and h2_present():
        ctx.eq('H2:counter-trace', [e[2] for e in ev], tr, **det)

def run_preset_blake2(case, ctx, rng):
    import crysp.blake as BK
    size, P, nblk, tail = case['size'], case['preset'], case['nblk'], case['tail']
    big = size == 512; B = 128 if big else 64
    blocks = rng.randbytes(nblk * B); t = rng.randbytes(tail)
    ctx.cls(('preset-blake2', size, P.bit_length(), (P >> 6) % 5, nblk, tail))
    def stream():
        h = BK.Blake2(size)
        h.initstate()
        h.padmethod.bitcnt = 8 * P
        h.update(blocks)
        return h.update(t, padding=True)
    got, ev = with_trace(stream)
    tr = []
    want = rb2.blake2(big, blocks + t, start_bytes=P, trace=tr)
    det = dict(size=size, preset=P, nblk=nblk, tail=tail)
    ctx.eq('counter-preset:blake2', got, want, **det)
    if not is_exc(got) and h2_present():
        ctx.eq('H2:counter-trace', [e[2] for e in ev], [x[0] for x in tr], **det)
        ctx.eq('H2:final-flag-trace', [1 if e[3] else 0 for e in ev], [1 if x[1] else 0 for x in tr], **det)

def classify(case, fail):
    return None
