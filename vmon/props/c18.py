"""C18  The white-box DES tables compute exactly DES under the embedded key."""
from vmon.core import call, is_exc, pattern
from vmon.refs import des as rdes

ID = 'C18'
LEVEL = 'exploration'
RULE = ('each generated table network is a program: class = (key class, block class); keys random/zero/ones/4 weak/12 semi-weak/single-bit/'
        'parity-only pairs; every network is validated on the 64 single-bit blocks, zero, ones and random blocks against FIPS 46-3 '
        '(own reference; libcrypto cross-check at start) and against crysp.des; table shapes/ranges and key-independence of M1/M2/M3 checked')
ASSUMPTIONS = ['own DES reference (FIPS 46-3 tables, self-tested; cross-checked with libcrypto DES-ECB at start when available)']
ANCHORS = [('wb.py', 'table_rKS'), ('wb.py', 'table_rKT'), ('wb.py', 'table_M1'), ('wb.py', 'table_M2'), ('wb.py', 'table_M3'), ('wb.py', 'SRLRformat'),
           ('wb.py', 'ERLRformat'), ('wb.py', 'WhiteDES.enc'), ('wb.py', 'getrbits_T_in')]
REQUIRED = ['multi:wb==FIPS46-3', 'wb==FIPS46-3', 'wb==crysp.des', 'KT-shape', 'M-shapes', 'M-tables-key-independent']
NSHARDS = 14
SAN = {'quick': (1, 40), 'thorough': (2, 40)}
CASE_CPU_S = 600
S3_EVERY = 1

def selftest():
    msg = rdes.selftest()
    try:
        from vmon.refs import ossl
        import random
        r = random.Random(8)
        for _ in range(50):
            k = r.randbytes(8); b = r.randbytes(8)
            assert ossl.cipher('DES-ECB', k, b) == rdes.enc(k, b)
        msg += '; DES reference agrees with libcrypto on 50 random cases'
    except (OSError, ValueError, AttributeError) as e:
        msg += '; libcrypto cross-check unavailable (%s)' % type(e).__name__
    return msg

def cases(tier, rng):
    n = 0
    for w in rdes.WEAK + rdes.SEMIWEAK:
        yield {'k': 'net', 'kc': 'weak', 'hex': w}
    for kc in ('zero', 'ones'):
        yield {'k': 'net', 'kc': kc}
    for bit in (range(0, 64, 5) if tier == 'quick' else range(64)):
        yield {'k': 'net', 'kc': 'bit', 'bit': bit}
    for j in range(40 if tier == 'quick' else 1200):
        yield {'k': 'net', 'kc': 'rand', 'j': j}
    for j in range(10 if tier == 'quick' else 300):
        yield {'k': 'parity', 'j': j}
    for j in range(8 if tier == 'quick' else 200):
        yield {'k': 'multi', 'j': j}

def network(K, order=None, keyobj=None):
    """order: the sequence in which the 16 rounds' tables are generated (a free choice of the caller);
    keyobj: a Bits object the caller keeps and refills with each new key instead of creating a new one"""
    from crysp.bits import Bits
    from crysp.wb import table_rKT, table_M1, table_M2, table_M3, WhiteDES
    if keyobj is not None:
        keyobj.ival = Bits(K, 64).ival
        bK = keyobj
    else:
        bK = Bits(K, 64)
    tabs = {}
    for r in (order if order is not None else range(16)):
        tabs[r] = table_rKT(r, bK)[1]
    KT = [tabs[r] for r in range(16)]
    M1, M2, M3 = table_M1(), table_M2()[0], table_M3()
    return KT, M1, M2, M3, WhiteDES(KT, M1, M2, M3)

def shapes(ctx, KT, M1, M2, M3, det):
    ok = len(KT) == 16 and all(len(rt) == 12 and all(len(t) == 256 and all(isinstance(v, int) and 0 <= v <= 255 for v in t) for t in rt) for rt in KT)
    ctx.check('KT-shape', ok, [len(KT)] + [len(rt) for rt in KT[:2]], '16 rounds x 12 tables x 256 byte entries', **det)
    okm = (len(M1) == 96 and all(0 <= int(i) < 64 for i in M1) and len(M2) == 96 and all(0 <= int(v) < (1 << 96) for v in M2)
           and len(M3) == 64 and all(0 <= int(i) < 96 for i in M3))
    ctx.check('M-shapes', okm, (len(M1), len(M2), len(M3)), (96, 96, 64), **det)

def blocks(rng, n_rand):
    bs = [(1 << (63 - i)).to_bytes(8, 'big') for i in range(64)] + [bytes(8), b'\xff' * 8]
    return bs + [rng.randbytes(8) for _ in range(n_rand)]

def run(case, ctx, rng):
    from crysp.des import DES
    from crysp.wb import table_M1, table_M2, table_M3
    k = case['k']
    if k == 'net':
        kc = case['kc']
        if kc == 'weak': K = bytes.fromhex(case['hex'])
        elif kc == 'bit':
            b = bytearray(8); b[case['bit'] // 8] = 0x80 >> (case['bit'] % 8); K = bytes(b)
        else: K = pattern(rng, 8, kc)
        ctx.cls((kc, case.get('hex', ''), case.get('bit', ''), case.get('j', 0) % 7))
        det = dict(K=K)
        order = [None, list(range(15, -1, -1)), list(range(0, 16, 2)) + list(range(1, 16, 2)), rng.sample(range(16), 16), [0, 5, 10, 15, 1, 6, 11, 2, 7, 12, 3, 8, 13, 4, 9, 14]][case.get('j', case.get('bit', 0)) % 5]
        det['round_generation_order'] = order
        before = call(lambda: (list(map(int, table_M1())), list(map(int, table_M2()[0])), list(map(int, table_M3()))))
        net = call(network, K, order)
        if is_exc(net):
            ctx.eq('wb==FIPS46-3', net, 'a table network', **det); return
        KT, M1, M2, M3, W = net
        shapes(ctx, KT, M1, M2, M3, det)
        after = call(lambda: (list(map(int, table_M1())), list(map(int, table_M2()[0])), list(map(int, table_M3()))))
        ctx.check('M-tables-key-independent', not is_exc(before) and not is_exc(after) and before == after == (list(map(int, M1)), list(map(int, M2)), list(map(int, M3))),
                  after if is_exc(after) else (before if is_exc(before) else 'changed'), 'identical for every key', **det)
        E = DES(K)
        if case.get('j', 0) % 2 == 0:
            call(E.dec, b'short'); call(E.enc, b'123456789')          # refused calls must not disturb the comparison object
        for B in blocks(rng, 4):
            got = call(W.enc, B)
            ctx.eq('wb==FIPS46-3', got, rdes.enc(K, B), B=B, **det)
            ctx.eq('wb==crysp.des', got, call(E.enc, B), B=B, **det)
        ctx.notes['programs'] += 1
    elif k == 'multi':
        # several networks generated in one process for related keys (top bit / low bit / one middle bit of some bytes
        # flipped), all built first, then evaluated interleaved on the same blocks
        K = rng.randbytes(8) if case['j'] % 3 else b'passw0rd'
        def flip(K, mask):
            sel = rng.randrange(1, 256)
            return bytes(b ^ mask if (sel >> i) & 1 else b for i, b in enumerate(K))
        keys = [K, flip(K, 0x80), flip(K, 0x01), flip(K, 0x10), rng.randbytes(8)]
        rng.shuffle(keys)
        ctx.cls(('multi', case['j'] % 4))
        from crysp.bits import Bits
        shared = Bits(bytes(8), 64) if case['j'] % 2 else None          # every other case: one key object refilled for each generation
        nets = [call(network, kk, None, shared) for kk in keys]
        Bs = [rng.randbytes(8) for _ in range(3)] + [bytes(8)]
        order = [(i, B) for i in range(len(keys)) for B in Bs]
        rng.shuffle(order)
        for i, B in order:
            if is_exc(nets[i]):
                ctx.eq('multi:wb==FIPS46-3', nets[i], rdes.enc(keys[i], B), K=keys[i]); continue
            ctx.eq('multi:wb==FIPS46-3', call(nets[i][4].enc, B), rdes.enc(keys[i], B), K=keys[i], B=B, keys=keys)
        # the comparison cipher, too, is one object re-keyed for each key (rebinding K, or refilling it in place)
        E = DES(keys[0])
        for t, kk in enumerate(keys):
            if t % 2: E.K = Bits(kk, 64)
            else: E.K.ival = Bits(kk, 64).ival
            if not is_exc(nets[t]):
                ctx.eq('wb==crysp.des', call(nets[t][4].enc, Bs[0]), call(E.enc, Bs[0]), K=kk, B=Bs[0], des_object='re-keyed through K (%s)' % ('rebound' if t % 2 else 'refilled in place'))
                ctx.eq('multi:wb==FIPS46-3', call(E.dec, rdes.enc(kk, Bs[1])), Bs[1], K=kk, des_object='re-keyed through K: dec')
        # copying or serialising a live network leaves the original intact, and the copies are the same network
        if not is_exc(nets[2]):
            import copy, pickle
            W0 = nets[2][4]; made = {}
            for nm, f in (('copy.copy', copy.copy), ('copy.deepcopy', copy.deepcopy), ('pickle round trip', lambda x: pickle.loads(pickle.dumps(x)))):
                r = call(f, W0)
                if not is_exc(r): made[nm] = r
                ctx.eq('multi:wb==FIPS46-3', call(W0.enc, Bs[2]), rdes.enc(keys[2], Bs[2]), K=keys[2], B=Bs[2], original_after=nm)
            for nm, Wc in made.items():
                ctx.eq('multi:wb==FIPS46-3', call(Wc.enc, Bs[1]), rdes.enc(keys[2], Bs[1]), K=keys[2], B=Bs[1], copy_made_by=nm)
        ctx.notes['programs'] += len(keys)
        if not is_exc(nets[0]) and not is_exc(nets[1]):
            W = nets[0][4]
            call(W.enc, Bs[0])
            W.KT = nets[1][0]                          # the object now carries the second key's T-boxes
            ctx.eq('multi:wb==FIPS46-3', call(W.enc, Bs[1]), rdes.enc(keys[1], Bs[1]), K=keys[1], B=Bs[1], KT_replaced_on_live_object=True)
    else:
        K = rng.randbytes(8)
        flips = rng.randrange(1, 256)
        K2 = bytes(b ^ 1 if (flips >> i) & 1 else b for i, b in enumerate(K))
        ctx.cls(('parity', bin(flips).count('1')))
        n1, n2 = call(network, K), call(network, K2)
        if is_exc(n1) or is_exc(n2):
            ctx.eq('parity-only-keys:same-function', n1 if is_exc(n1) else n2, 'two networks', K=K, K2=K2); return
        ctx.check('parity-only-keys:same-tables', n1[0] == n2[0], 'different T-boxes', 'identical T-boxes', K=K, K2=K2)
        for B in blocks(rng, 2)[::9] + [rng.randbytes(8)]:
            a, b = call(n1[4].enc, B), call(n2[4].enc, B)
            ctx.eq('parity-only-keys:same-function', a, b, K=K, K2=K2, B=B)
            ctx.eq('wb==FIPS46-3', a, rdes.enc(K, B), K=K, B=B)
        ctx.notes['programs'] += 2

def classify(case, fail):
    return None
