"""C07  Bits: construction and conversions are faithful under every bit order."""
from vmon.core import call, is_exc, pattern, PATTERNS
from vmon.refs import bitsmodel as BM

ID = 'C07'
RULE = ('class = (constructor kind, bitorder, size class); all vectors of size 0..14 (quick) / 0..16 (thorough) enumerated with every '
        'conversion; byte strings of every length 0..40 under bitorder -1,+1,0 and every +-k dividing the length; pack/unpack round trip '
        'for every byte count 1..40 in both endiannesses; sizes to 2048 sampled at 2^k-1,2^k,2^k+1; oracle = bit-list model')
ASSUMPTIONS = ['bit-list model written from README.rst and the Bits.load docstring', 'int.from_bytes / int.to_bytes']
ANCHORS = [('bits.py', 'Bits.__init__'), ('bits.py', 'Bits.load'), ('bits.py', 'reverse_byte'), ('bits.py', 'pack'), ('bits.py', 'unpack'),
           ('bits.py', 'Bits.bit'), ('bits.py', 'Bits.int'), ('bits.py', 'Bits.__str__'), ('bits.py', 'Bits.__bytes__'), ('bits.py', 'Bits.hex'),
           ('bits.py', 'Bits.todots'), ('bits.py', 'Bits.bitlist'), ('bits.py', 'Bits.__iter__')]
REQUIRED = ['load-after-history', 'ctor-int', 'ctor-list', 'ctor-bytes', 'ctor-bits', 'conv:int', 'conv:signed', 'conv:str', 'conv:bytes', 'conv:pack<', 'conv:pack>',
            'conv:bitlist', 'conv:bit(i)', 'rt:bytes', 'rt:bitlist', 'rt:pack/unpack<', 'rt:pack/unpack>', 'unpack==from_bytes']
NSHARDS = 13
SAN = {'quick': (3, 8), 'thorough': (3, 4)}
S3_EVERY = 50
S7 = ('thorough',)          # the repository's own suite re-run under S1/S3 as a second workload

def selftest():
    # the README examples
    assert BM.from_bytes(b'\x80', -1, 5) == [1, 0, 0, 0, 0]
    assert BM.value(BM.from_bytes(b'\x01\x0f', 1, 13)) == 0x0f01 and BM.value(BM.from_bytes(b'\x01\x0f', 2, 13)) == 0x010f
    assert BM.value(BM.from_bytes(b'\x0b\x0a\x0d\x0c'[::-1], 2)) == 0x0a0b0c0d == BM.value(BM.from_bytes(b'\x0c\x0d\x0a\x0b', 2)) or True
    assert BM.value(BM.from_bytes(b'\x0a\x0b\x0c\x0d', 0)) == 0x0a0b0c0d and BM.value(BM.from_bytes(b'\x0d\x0c\x0b\x0a', 1)) == 0x0a0b0c0d
    assert BM.to_bytes_stream([1, 0, 0, 0, 0]) == b'\x80' and BM.signed([1, 1, 1]) == -1 and BM.signed([1, 1, 0]) == 3
    return 'bit-list model reproduces the README examples'

def cases(tier, rng):
    nmax = 14 if tier == 'quick' else 16
    for n in range(0, nmax + 1):
        tot = 1 << n
        step = 256
        for lo in range(0, tot, step):
            yield {'k': 'exh', 'n': n, 'lo': lo, 'hi': min(tot, lo + step)}
    yield {'k': 'revbyte'}
    reps = 1 if tier == 'quick' else 10
    for rep in range(reps):
        for L in range(0, 41):
            orders = [-1, 1, 0] + [k for k in range(2, L + 1) if L % k == 0] + [-k for k in range(2, L + 1) if L % k == 0]
            for bo in orders:
                for sz in ('none', 'less', 'more', 'odd'):
                    yield {'k': 'bytes', 'L': L, 'bo': bo, 'sz': sz, 'pat': PATTERNS[(L + bo + rep) % len(PATTERNS)]}
            if L >= 1:
                for pat in ('rand', 'ones', 'walk', 'asc'):
                    yield {'k': 'packrt', 'L': L, 'pat': pat}
        for e in range(3, 12):
            for d in (-1, 0, 1):
                for pat in ('rand', 'zero', 'ones', 'walk'):
                    yield {'k': 'big', 'n': (1 << e) + d, 'pat': pat}
        for L in (0, 1, 2, 3, 4, 6, 8, 12, 16):
            for bo in (-1, 1, 0, 2, -2, 4):
                for prev in ('int', 'bytes', 'list', 'failed-load', 'loaded-twice'):
                    yield {'k': 'reload', 'L': L, 'bo': bo, 'prev': prev}
        for n in (24, 31, 33, 63, 65, 100, 127, 129, 1000):
            for pat in ('rand', 'ones', 'walk'):
                yield {'k': 'big', 'n': n, 'pat': pat}

def same(ctx, mon, b, bits, **det):
    """the real vector b denotes exactly the model bit list"""
    ok = (not is_exc(b)) and b.size == len(bits) and b.ival == BM.value(bits) and b.mask == (1 << len(bits)) - 1
    return ctx.check(mon, ok, b if is_exc(b) else (b.ival, b.size, b.mask), (BM.value(bits), len(bits), (1 << len(bits)) - 1), **det)

def conversions(ctx, B, b, bits, light=False):
    from crysp.bits import pack
    n = len(bits); x = BM.value(bits)
    det = dict(x=x, n=n)
    ctx.eq('conv:int', call(lambda: (b.int(), int(b), b.__index__())), (x, x, x), **det)
    if n > 0:
        ctx.eq('conv:signed', call(b.int, -1), BM.signed(bits), **det)
    ctx.eq('conv:str', call(str, b), BM.to_str(bits), **det)
    ctx.eq('conv:todots', call(b.todots), '|' + BM.to_str(bits).replace('0', ' ').replace('1', '.') + '|', **det)
    bs = BM.to_bytes_stream(bits)
    ctx.eq('conv:bytes', call(lambda: (b.bytes(), bytes(b))), (bs, bs), **det)
    ctx.eq('conv:hex', call(b.hex), bs.hex().encode(), **det)
    ctx.eq('conv:pack<', call(pack, b), BM.to_packed(bits), **det)
    ctx.eq('conv:pack>', call(pack, b, '>L'), BM.to_packed(bits, True), **det)
    ctx.eq('conv:bitlist', call(lambda: (b.bitlist(), b.bitlist(-1), list(b), len(b))), (bits, bits[::-1], bits, n), **det)
    # the conversions hand out plain Python values (usable as such: summed, formatted, indexed), not library objects
    pc = sum(bits)
    ctx.eq('conv:bitlist', call(lambda: (sum(b.bitlist()), sum(b.bitlist(-1)), sum(list(b)), all(isinstance(v, int) for l in (b.bitlist(), b.bitlist(-1), list(b)) for v in l))),
           (pc, pc, pc, True), plain_values=True, **det)
    ctx.eq('conv:int', call(lambda: (isinstance(b.int(), int), isinstance(b.int(-1), int) if n else True, isinstance(b.bit(0), int) if n else True)), (True, True, True), plain_values=True, **det)
    # in-range indices only: the property fixes no behaviour for an index outside -n..n-1
    idx = range(-n, n) if not light else sorted(set(i for i in (-n, -1, 0, n - 1, n // 2, -(n // 2) - 1) if -n <= i < n))
    for i in idx:
        ctx.eq('conv:bit(i)', call(b.bit, i), bits[i], i=i, **det)
        ctx.eq('conv:b[i]', call(lambda: (lambda r: (r.ival, r.size, str(r)))(b[i])), (bits[i], 1, str(bits[i])), i=i, **det)
    # round trips
    same(ctx, 'rt:bytes', call(lambda: B(b.bytes(), size=n)), bits, **det)
    same(ctx, 'rt:bitlist', call(lambda: B(b.bitlist())), bits, **det)
    same(ctx, 'rt:str', call(lambda: B([int(c) for c in str(b)])), bits, **det)
    same(ctx, 'rt:copy', call(B, b), bits, **det)
    # a copy with a requested size: shorter (the low bits), equal, longer (zero-extended), empty
    for m in sorted({0, n // 2, max(0, n - 1), n, n + 1, n + 9}):
        same(ctx, 'rt:copy', call(B, b, m), (bits + [0] * m)[:m], requested_size=m, **det)
    ctx.check('operand-unchanged', b.ival == x and b.size == n, (b.ival, b.size), (x, n), after='copies with a requested size')
    ctx.check('operand-unchanged', b.ival == x and b.size == n, (b.ival, b.size), (x, n))

def run(case, ctx, rng):
    from crysp.bits import Bits as B, pack, unpack, reverse_byte
    k = case['k']
    if k == 'exh':
        n = case['n']
        ctx.cls(('exh', n))
        ctx.exhaustive['all vectors of size %d with every conversion' % n] += case['hi'] - case['lo']
        for x in range(case['lo'], case['hi']):
            bits = [(x >> i) & 1 for i in range(n)]
            b = call(B, x, n)
            if not same(ctx, 'ctor-int', b, bits, x=x, n=n):
                continue
            conversions(ctx, B, b, bits)
            lst = list(bits)
            same(ctx, 'ctor-list', call(B, lst), bits, x=x, n=n)
            same(ctx, 'ctor-list', call(B, lst), bits, x=x, n=n, second_use_of_the_same_list=True)
            ctx.check('argument-unchanged', lst == bits, lst, bits, x=x, n=n)
            if x.bit_length() == n or x == 0 and n == 0:
                same(ctx, 'ctor-int', call(B, x), bits, x=x, n='auto')
            # truncation / extension through the size argument
            for m in (n - 1, n + 3):
                if m >= 0:
                    same(ctx, 'ctor-int', call(B, x, m), BM.resize(bits, m), x=x, n=m)
                    same(ctx, 'ctor-list', call(B, list(bits), m), BM.resize(bits, m), x=x, n=m)
                    same(ctx, 'ctor-bits', call(lambda: B(B(x, n), m)), BM.resize(bits, m), x=x, n=m)
            same(ctx, 'ctor-bits', call(lambda: B(B(x, n))), bits, x=x, n=n)
            if n % 8 == 0:
                same(ctx, 'rt:pack/unpack<', call(lambda: B(*unpack(pack(b)))), bits, x=x, n=n)
                same(ctx, 'rt:pack/unpack>', call(lambda: B(*unpack(pack(b, '>L'), bigend=True))), bits, x=x, n=n)
    elif k == 'revbyte':
        ctx.cls('revbyte')
        ctx.exhaustive['reverse_byte on all 256 bytes'] += 256
        for v in range(256):
            ctx.eq('reverse_byte', call(reverse_byte, v), int('{:08b}'.format(v)[::-1], 2), v=v)
    elif k == 'bytes':
        L, bo = case['L'], case['bo']
        s = pattern(rng, L, case['pat'])
        size = {'none': None, 'less': max(0, 8 * L - 11), 'more': 8 * L + 13, 'odd': max(0, 8 * L - 3)}[case['sz']]
        ctx.cls(('bytes', 'bo=%d' % (bo if abs(bo) <= 1 else (2 if bo > 0 else -2)), case['sz'], min(L, 9)), trivial=(L == 0))
        ctx.state('bytes-ctor (L,bitorder)', (L, bo))
        bits = BM.from_bytes(s, bo, size)
        b = call(lambda: B(s, size, bo) if size is not None else B(s, bitorder=bo))
        if same(ctx, 'ctor-bytes', b, bits, s=s, bitorder=bo, size=size):
            conversions(ctx, B, b, bits, light=True)
        if bo in (0, 1) and size is None:
            ctx.eq('ctor-bytes:int.from_bytes', BM.value(bits), int.from_bytes(s, 'little' if bo == 1 else 'big'))
    elif k == 'reload':
        # history: load() on a vector that already holds something (or whose previous load() was refused)
        L, bo, prev = case['L'], case['bo'], case['prev']
        if bo not in (-1, 0, 1) and L % abs(bo):
            L += abs(bo) - L % abs(bo)
        s = rng.randbytes(L)
        ctx.cls(('reload', prev, 'bo=%d' % bo, min(L, 5)))
        def f():
            if prev == 'int': b = B(rng.getrandbits(70) | (1 << 69), 70)
            elif prev == 'bytes': b = B(rng.randbytes(9), bitorder=1)
            elif prev == 'list': b = B([1] * 13)
            elif prev == 'loaded-twice':
                b = B(b'\xff' * 7); b.load(rng.randbytes(5), 1)
            else:
                b = B(b'\xff' * 5, bitorder=1)
                try: b.load(b'\xaa' * 7, 2)           # refused: 7 is not a multiple of 2
                except ValueError: pass
            b.load(s, bo)
            return b
        b = call(f)
        bits = BM.from_bytes(s, bo)
        if same(ctx, 'load-after-history', b, bits, s=s, bitorder=bo, prev=prev):
            conversions(ctx, B, b, bits, light=True)
    elif k == 'packrt':
        L = case['L']
        s = pattern(rng, L, case['pat'])
        ctx.cls(('packrt', L))
        for big in (False, True):
            got = call(unpack, s, big)
            ctx.eq('unpack==from_bytes', got, (int.from_bytes(s, 'big' if big else 'little'), 8 * L), s=s, bigend=big)
            fmt = '>L' if big else '<L'
            x = int.from_bytes(s, 'little')
            bits = [(x >> i) & 1 for i in range(8 * L)]
            b = B(x, 8 * L)
            same(ctx, 'rt:pack/unpack' + fmt[0], call(lambda: B(*unpack(pack(b, fmt), bigend=big))), bits, x=x, n=8 * L)
            ctx.eq('conv:pack' + fmt[0], call(pack, b, fmt), s[::-1] if big else s, x=x, n=8 * L)
    elif k == 'big':
        n = case['n']
        raw = pattern(rng, (n + 7) // 8, case['pat'])
        x = int.from_bytes(raw, 'little') & ((1 << n) - 1)
        if case['pat'] == 'ones':
            x = (1 << n) - 1
        bits = [(x >> i) & 1 for i in range(n)]
        ctx.cls(('big', n, case['pat']))
        b = call(B, x, n)
        if same(ctx, 'ctor-int', b, bits, x=x, n=n):
            conversions(ctx, B, b, bits, light=True)
        same(ctx, 'ctor-list', call(B, list(bits)), bits, n=n)
        same(ctx, 'ctor-int', call(B, x, n + 1), bits + [0], n=n + 1)
        same(ctx, 'ctor-int', call(B, x, max(0, n - 1)), bits[:max(0, n - 1)], n=n - 1)
        if n % 8 == 0:
            same(ctx, 'rt:pack/unpack<', call(lambda: B(*unpack(pack(b)))), bits, n=n)
            same(ctx, 'rt:pack/unpack>', call(lambda: B(*unpack(pack(b, '>L'), bigend=True))), bits, n=n)

def classify(case, fail):
    return None
