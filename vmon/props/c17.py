"""C17  MD6 digests equal the specification for every size, mode, key and message."""
from vmon.core import call, is_exc, pattern
from vmon.refs import md6 as rm

ID = 'C17'
RULE = ('class = (d class, L in {0,1,2,3,64}, |K| class, rounds class, number of level-1 blocks class, |M| mod 512 and mod 384 boundary '
        "residue, L' mod 8); small round counts keep many-block messages cheap, default rounds on the <=4-block classes; oracle = own MD6 "
        'reference (PAR/SEQ/hybrid), digests with d mod 8 != 0 left-justified')
ASSUMPTIONS = ['own MD6 reference (self-tested on the three examples of the MD6 report, md6-256("abc") and md6-512(""))',
               'left-justified output for d mod 8 != 0 (reference trim_hashval; what crysp\'s own PAR path does)']
ANCHORS = [('md.py', 'MD6.__call__'), ('md.py', 'MD6.PAR'), ('md.py', 'MD6.SEQ'), ('md.py', 'MD6.f'), ('md.py', 'MD6.__init__')]
REQUIRED = ['rounds-history:md6==spec', 'siblings:md6==spec', 'md6==spec', 'digest-length']
NSHARDS = 14
SAN = {'quick': (2, 60), 'thorough': (2, 60)}
CASE_CPU_S = 400

def selftest():
    return rm.selftest()

DS = [1, 7, 8, 160, 224, 255, 256, 384, 511, 512]
LS = [0, 1, 2, 3, 64]
KLS = [0, 1, 8, 63, 64]

def msglens():
    # bytes: around the 512-byte PAR block and the 384-byte SEQ block, 1..4 tree levels
    return [0, 1, 3, 127, 128, 129, 383, 384, 385, 511, 512, 513, 767, 768, 769, 1024, 1025, 1536, 2047, 2048, 2049, 3 * 512 + 7, 5 * 512, 16 * 512, 16 * 512 + 1, 17 * 512]

def cases(tier, rng):
    j = 0
    for d in DS:
        for L in LS:
            for kl in KLS:
                for ml in msglens():
                    j += 1
                    if tier == 'quick' and (j % 9) and not (ml in (0, 3) and kl in (0, 8)):
                        continue
                    nblk = max(1, -(-ml // 512))
                    r = [6, 2, 8, 3][j % 4] if nblk > 4 or tier == 'quick' else [None, 5, 8, 1][j % 4]
                    bl = None if j % 3 else (8 * ml - (j % 7) - 1 if ml else None)
                    yield {'k': 'md6', 'd': d, 'L': L, 'kl': kl, 'ml': ml, 'r': r, 'bl': bl, 'pat': ['rand', 'rand', 'zero', 'rand', 'x7f', 'ones'][(j // 9 + j) % 6]}
    # default rounds on small messages for every d class / mode
    for d in DS:
        for L in (0, 1, 64):
            for ml, bl in ((0, None), (3, None), (3, 17), (513, None), (600, 4799)):
                yield {'k': 'md6', 'd': d, 'L': L, 'kl': [0, 10][ml % 2], 'ml': ml, 'r': None, 'bl': bl}
    # keys whose bytes follow a pattern (all zero, all ones, one bit set), at the default round count and at a fixed one:
    # a key is a byte string of a given length, whatever its bytes are
    for d in (1, 64, 128, 159, 160, 256, 512):
        for kl in (1, 8, 64):
            for kpat in ('zero', 'ones', 'walk'):
                for L, ml, r in ((64, 3, None), (0, 600, None), (1, 0, 3)):
                    yield {'k': 'md6', 'd': d, 'L': L, 'kl': kl, 'ml': ml, 'r': r, 'bl': None, 'kpat': kpat}
    for d in (256, 7, 512):
        for L in LS:
            for ml, bl in ((600, 100), (600, 4096), (600, 4097), (2049, 4096), (2049, 8 * 512 * 3 + 5), (1000, 3), (5000, 8 * 2048), (5000, 8 * 2048 + 1), (9000, 8 * 8192 + 3)):
                yield {'k': 'md6', 'd': d, 'L': L, 'kl': [0, 3][ml % 2], 'ml': ml, 'r': 6, 'bl': bl}
    for nodes in (7, 11, 13, 14, 15, 19, 21):          # numbers of level-1 nodes that are neither small nor a power of four
        for L in (64, 1, 2):
            yield {'k': 'md6', 'd': 256, 'L': L, 'kl': 0, 'ml': nodes * 512 - [0, 1, 511][nodes % 3], 'r': 1, 'bl': None}
    for r in (255, 256, 300, 1000):
        for L in (64, 0, 1):
            yield {'k': 'md6', 'd': 256, 'L': L, 'kl': 0, 'ml': [3, 600][L % 2], 'r': r, 'bl': None}
    for j in range(12 if tier == 'quick' else 100):
        yield {'k': 'rounds-history', 'j': j, 'd': 0, 'L': 0, 'kl': 0, 'ml': 0, 'r': 2, 'bl': None}
    # deep trees (4 levels) and long sequential chains with tiny round counts
    for ml in ((65 * 512, 64 * 512 + 1, 100 * 384) if tier == 'quick' else (65 * 512, 64 * 512, 64 * 512 + 1, 100 * 384, 257 * 512)):
        for L in (64, 1, 0, 2):
            yield {'k': 'md6', 'd': [256, 7, 512, 160][L % 4], 'L': L, 'kl': 5 if L == 1 else 0, 'ml': ml, 'r': 1, 'bl': None}
    for j in range(16 if tier == 'quick' else 120):
        yield {'k': 'siblings', 'j': j, 'd': 0, 'L': 0, 'kl': 0, 'ml': 0, 'r': 2, 'bl': None}
    for d in (range(1, 513) if tier == 'thorough' else range(1, 513, 37)):
        yield {'k': 'md6', 'd': d, 'L': [64, 0, 1][d % 3], 'kl': d % 5, 'ml': [0, 5, 600][d % 3], 'r': 2, 'bl': None}

def nblk_class(ml):
    n = max(1, -(-ml // 512)) if ml else 0
    return 0 if n == 0 else 1 if n == 1 else '2-4' if n <= 4 else '5-16' if n <= 16 else '17-64' if n <= 64 else '65+'

def run(case, ctx, rng):
    from crysp.md import MD6
    if case['k'] == 'rounds-history':
        # the round count is a public attribute: one object, digests taken at several round counts
        d = rng.choice([128, 256, 512, 7]); L = rng.choice(LS); key = rng.randbytes(rng.choice([0, 5]))
        M = rng.randbytes(rng.choice([3, 513, 1537]))
        ctx.cls(('rounds-history', case['j'] % 4))
        h = MD6(d, key, L)
        hist = []
        for r in [rng.choice([1, 2, 3, 5, 7]) for _ in range(4)] + [None]:
            if r is not None: h.rounds = r
            else: r = h.rounds
            hist.append(r)
            ctx.eq('rounds-history:md6==spec', call(h, M), rm.md6(d, M, None, key, L, r), d=d, L=L, key=key, rounds=list(hist), ml=len(M))
        return
    if case['k'] == 'siblings':
        from vmon.core import siblings
        ctx.cls(('siblings', case['j'] % 4))
        specs = []
        for t in range(4):
            d = rng.choice([1, 7, 128, 160, 224, 256, 384, 512]); L = rng.choice(LS); key = rng.randbytes(rng.choice(KLS)); r = rng.choice([1, 2, 3])
            M1 = rng.randbytes(rng.choice([0, 3, 513, 1537, 2049])); M2 = rng.randbytes(5)
            def new(d=d, key=key, L=L, r=r):
                h = MD6(d, key, L); h.rounds = r; return h
            specs.append(('MD6(d=%d,|K|=%d,L=%d,r=%d)' % (d, len(key), L, r), new, [('h(M1)', (lambda o, M=M1: o(M)), rm.md6(d, M1, None, key, L, r)),
                                                                                  ('h(M2,bitlen=33)', (lambda o, M=M2: o(M, 33)), rm.md6(d, M2, 33, key, L, r))]))
        siblings(ctx, rng, 'siblings:md6==spec', specs, late=specs.pop())
        return
    d, L, kl, ml, r, bl = (case[x] for x in ('d', 'L', 'kl', 'ml', 'r', 'bl'))
    M = pattern(rng, ml, case.get('pat', 'rand')); key = pattern(rng, kl, case.get('kpat', 'rand'))        # also messages whose blocks are all equal
    ctx.cls((d if d in DS else 'd%%8=%d' % (d % 8), L, kl, r or 'default', nblk_class(ml), ml % 512 in (0, 1, 511), ml % 384 in (0, 1, 383), (bl or 0) % 8))
    def f():
        h = MD6(d, key, L)
        if r is not None: h.rounds = r
        return h(M, bl) if bl is not None else h(M)
    got = call(f)
    det = dict(d=d, L=L, key=key, ml=ml, r=r, bitlen=bl, M=M if ml <= 64 else M[:16] + b'...')
    ctx.eq('md6==spec', got, rm.md6(d, M, bl, key, L, r), **det)
    if not is_exc(got):
        ctx.eq('digest-length', len(got), (d + 7) // 8, **det)
    if ml <= 1024 and bl is None and not is_exc(got):
        # caller-owned buffers: a bytearray key the caller wipes after construction, a bytearray message
        from vmon.core import mutable_arg
        kb = bytearray(key)
        h2 = call(MD6, d, kb, L)
        if not is_exc(h2):
            if r is not None: h2.rounds = r
            call(h2, M, 8 * len(M) + 5); call(h2, 'text, not bytes'); call(h2, None)          # refused calls first
            ctx.eq('md6==spec', call(h2, M), got, after='refused calls (bit length beyond the data, wrong argument types)', **det)
            ctx.eq('md6==spec', call(h2, M), got, key_as='bytearray', **det)
            for i in range(len(kb)): kb[i] = 0
            del kb[len(kb) // 2:]
            ctx.eq('md6==spec', call(h2, M), got, key_as='bytearray wiped and shortened by the caller after construction', **det)
            mutable_arg(ctx, 'md6==spec', (lambda buf: h2(buf)), M, got, **det)

def classify(case, fail):
    return None
