"""C01  MD4/MD5/SHA-0/SHA-1/SHA-2 digests equal the standards for every message."""
import hashlib
from vmon.core import call, is_exc, pattern, PATTERNS
from vmon.refs import mdsha

ID = 'C01'
RULE = ('class = (algorithm, L mod blocksize, floor(L/blocksize) in 0..4+, L mod 8, surplus bytes); every byte length 0..2.5 blocks, every bit '
        'length within +-9 of 0/spill/blocksize/2*blocksize (quick) or every bit length 1..3*blocksize+16 (thorough), explicit L with surplus '
        'bytes; multi-word bit counters through preset public streaming state; oracle = own FIPS 180-4/RFC 1320/1321 reference + hashlib')
ASSUMPTIONS = ['hashlib (OpenSSL) for byte-aligned messages', 'own bit-granular reference self-tested against hashlib and SHAVS/RFC vectors']
ANCHORS = [('sha.py', 'SHA1.update'), ('sha.py', 'SHA2.update'), ('md.py', 'MD4.update'), ('md.py', 'MD5.update'),
           ('padding.py', 'MDpadding.lastblock'), ('padding.py', 'SHApadding.lastblock'), ('padding.py', 'blockiterator.iterblocks'),
           ('sha.py', 'SHA2.initstate'), ('sha.py', 'SHA1.initstate')]
REQUIRED = ['digest==reference', 'digest==hashlib', 'digest-length', 'oversized-bitlen-rejected', 'counter-preset:digest==reference']
NSHARDS = 14
SAN = {'quick': (2, 40), 'thorough': (2, 40)}
CASE_CPU_S = 60

ALGS = ['md4', 'md5', 'sha0', 'sha1', 'sha224', 'sha256', 'sha384', 'sha512', 'sha512_224', 'sha512_256']

def make(name):
    from crysp.sha import SHA1, SHA2
    from crysp.md import MD4, MD5
    return {'md4': MD4, 'md5': MD5, 'sha0': lambda: SHA1(0), 'sha1': lambda: SHA1(1), 'sha224': lambda: SHA2(224), 'sha256': lambda: SHA2(256),
            'sha384': lambda: SHA2(384), 'sha512': lambda: SHA2(512), 'sha512_224': lambda: SHA2(512, 224), 'sha512_256': lambda: SHA2(512, 256)}[name]()

HAVE = mdsha.hashlib_available()

def selftest():
    return mdsha.selftest(60)

def cases(tier, rng):
    for alg in ALGS:
        a = mdsha.ALGS[alg]
        B = a['block']; bs = B * 8; w = a['w']
        spill = bs - 1 - 2 * w
        pats = ['rand', 'ones', 'xwords'] if tier == 'quick' else ['rand', 'ones', 'zero', 'x80', 'xwords', 'x7f']
        for pat in pats:
            for n in range(0, int(2.5 * B) + 1):
                yield {'k': 'bytes', 'alg': alg, 'n': n, 'pat': pat}
            for n in (3 * B - 1, 3 * B, 4 * B + 1, 5 * B) + ((16 * B + 3, 64 * B) if tier == 'thorough' else ()):
                yield {'k': 'bytes', 'alg': alg, 'n': n, 'pat': pat}
            if pat == 'rand':
                for n in (4095, 4096, 4099, 65536, 65539):          # long inputs (thresholds of buffered / chunked processing)
                    yield {'k': 'bytes', 'alg': alg, 'n': n, 'pat': pat}
        if tier == 'quick':
            Ls = set()
            for c in (0, spill, bs, bs + spill, 2 * bs):
                Ls.update(range(max(1, c - 9), c + 10))
            Ls.update([3 * bs - 1, 3 * bs + 1, 4 * bs + spill])
        else:
            Ls = set(range(1, 3 * bs + 17)) | {4 * bs + spill, 5 * bs - 1, 5 * bs + 1}
        for L in sorted(Ls):
            for sur in (0, 1, 5) + ((B + 3,) if L % 64 == 1 else ()):
                for pat in (['rand'] if tier == 'quick' else ['rand', 'ones']):
                    yield {'k': 'bits', 'alg': alg, 'L': L, 'sur': sur, 'pat': pat}
        for j in range((40 if alg in ('md4', 'md5') else 6) * (1 if tier == 'quick' else 10)):
            yield {'k': 'batch', 'alg': alg, 'j': j}
        for over in (1, 7, 8, 9, bs):
            for n in (0, 1, B - 1, B, B + 1):
                yield {'k': 'reject', 'alg': alg, 'n': n, 'over': over}
        for shape in ('pending', 'pending-partial', 'finalised', 'refused-final', 'bytearray-arg', 'fresh-update', 'refused-inside-stream'):
            for n in (0, 3, B - 1, B, B + 9):
                yield {'k': 'after-stream', 'alg': alg, 'shape': shape, 'n': n}
        # multi-word bit counters
        top = 32 if w == 32 else 64
        for kblocks in (-2, -1, 0, 1):
            for tail in (0, 1, B - 2 * (w // 8) - 1, B - 2 * (w // 8), B - 1):
                for nblk in (1, 2, 3):
                    yield {'k': 'preset', 'alg': alg, 'preset': (1 << top) + kblocks * bs, 'nblk': nblk, 'tail': tail}
        if w == 64:
            for nblk in (1, 2):
                yield {'k': 'preset', 'alg': alg, 'preset': (1 << 32) - bs, 'nblk': nblk, 'tail': 5}
        for P in (0, (1 << top) - bs, 3 * bs):
            for nblk in (1, 2):
                for tail in (B + 1, 2 * B, 2 * B + 5, 3 * B + B // 2):
                    yield {'k': 'preset', 'alg': alg, 'preset': P, 'nblk': nblk, 'tail': tail}

def run(case, ctx, rng):
    k = case['k']; alg = case['alg']
    a = mdsha.ALGS[alg]
    B = a['block']; bs = 8 * B
    h = make(alg)
    if k == 'bytes':
        n = case['n']
        m = pattern(rng, n, case['pat'])
        ctx.cls((alg, (8 * n) % bs, min(8 * n // bs, 5), 0, 0))
        got = call(h, m)
        ctx.eq('digest==reference', got, mdsha.digest(alg, m), alg=alg, n=n, m=m)
        if alg in HAVE:
            ctx.eq('digest==hashlib', got, hashlib.new(mdsha.HASHLIB[alg], m).digest(), alg=alg, n=n)
        if not is_exc(got):
            ctx.eq('digest-length', len(got), a['outlen'], alg=alg)
    elif k == 'bits':
        L, sur = case['L'], case['sur']
        m = pattern(rng, (L + 7) // 8 + sur, case['pat'])
        ctx.cls((alg, L % bs, min(L // bs, 5), L % 8, sur))
        got = call(h, m, L)
        ctx.eq('digest==reference', got, mdsha.digest(alg, m, L), alg=alg, L=L, sur=sur, m=m)
        if L % 8 == 0 and alg in HAVE:
            ctx.eq('digest==hashlib', got, hashlib.new(mdsha.HASHLIB[alg], m[:L // 8]).digest(), alg=alg, L=L)
        if not is_exc(got):
            ctx.eq('digest-length', len(got), a['outlen'], alg=alg)
        # same object again with the bit length passed by keyword
        ctx.eq('digest==reference', call(h, m, bitlen=L), mdsha.digest(alg, m, L), alg=alg, L=L, sur=sur, second_call=True)
    elif k == 'batch':
        ctx.cls((alg, 'batch', case['j'] % 5))
        for _ in range(100):
            m = rng.randbytes(rng.randrange(0, 70))
            got = call(h, m)
            ok = ctx.eq('digest==reference', got, mdsha.digest(alg, m), alg=alg, m=m, batch=True)
            if not is_exc(got):
                ctx.eq('digest-length', len(got), a['outlen'], alg=alg, m=m)
    elif k == 'reject':
        n = case['n']
        m = pattern(rng, n, 'rand')
        L = 8 * n + case['over']
        ctx.cls((alg, 'reject', n, case['over']))
        got = call(h, m, L)
        ctx.check('oversized-bitlen-rejected', is_exc(got), got, 'an error (no digest)', alg=alg, n=n, L=L)
    elif k == 'after-stream':
        # a one-shot call on an object that holds a pending / finished / refused stream hashes its own message only
        shape, n = case['shape'], case['n']
        ctx.cls((alg, 'after-stream', shape, n % B, n // B))
        m = rng.randbytes(n)
        if shape == 'refused-inside-stream':
            # a stream in which one piece is refused (bit length beyond its data, the data holding whole blocks): the refused piece
            # leaves no trace, the stream goes on and ends with the digest of what was accepted
            hs = make(alg); first = rng.randbytes(B); junk = rng.randbytes(2 * B + 5)
            def stream():
                hs.initstate(); hs.update(first)
                call(lambda: hs.update(junk, bitlen=8 * len(junk) + 8))
                call(lambda: hs.update(junk, bitlen=8 * len(junk) + 1, padding=True))
                return hs.update(m, padding=True)
            ctx.eq('digest==reference', call(stream), mdsha.digest(alg, first + m), alg=alg, n=n, shape='update(block); refused pieces holding whole blocks; update(M, padding=True)')
        if shape == 'fresh-update':
            # a brand-new object used through update() at once (no one-shot call, no explicit initstate before)
            hf = make(alg)
            ctx.eq('digest==reference', call(lambda: hf.update(m, padding=True)), mdsha.digest(alg, m), alg=alg, n=n, m=m, shape='update(M, padding=True) on a fresh object')
            hg = make(alg); blk = rng.randbytes(B)
            ctx.eq('digest==reference', call(lambda: (hg.update(blk), hg.update(m, padding=True))[1]), mdsha.digest(alg, blk + m), alg=alg, n=n, shape='update(block); update(M, padding=True) on a fresh object')
        def prep():
            h.initstate()
            if shape == 'pending': h.update(rng.randbytes(B))
            elif shape == 'pending-partial': h.update(rng.randbytes(2 * B))
            elif shape == 'finalised': h.update(rng.randbytes(B + 5), padding=True)
            elif shape == 'refused-final':
                h.update(rng.randbytes(B)); call(lambda: h.update(b'xy', bitlen=8 * B + 99, padding=True))
        call(prep)
        if shape == 'bytearray-arg':
            buf = bytearray(m)
            got = call(h, buf)
            ctx.eq('digest==reference', got, mdsha.digest(alg, m), alg=alg, n=n, arg='bytearray')
            ctx.eq('digest==reference', bytes(buf), m, alg=alg, n=n, arg='bytearray left unchanged')
            for i in range(len(buf)): buf[i] ^= 0xff
            m = rng.randbytes(n + 1)
        got = call(h, m)
        ctx.eq('digest==reference', got, mdsha.digest(alg, m), alg=alg, n=n, m=m, after_stream=shape)
        L = max(0, 8 * n - 3)
        ctx.eq('digest==reference', call(h, m, L), mdsha.digest(alg, m, L), alg=alg, L=L, m=m, after_stream=shape, second_call=True)
    elif k == 'preset':
        P, nblk, tail = case['preset'], case['nblk'], case['tail']
        blocks = rng.randbytes(nblk * B); t = rng.randbytes(tail)
        ctx.cls((alg, 'preset', P.bit_length(), (P >> 3) % 7, nblk, tail))
        def stream():
            h.initstate()
            h.padmethod.bitcnt = P
            h.update(blocks)
            sib = make(alg); sib(b'sibling'); sib.initstate(); sib.update(bytes(B))      # a sibling appears and streams, too
            cnt = h.padmethod.bitcnt
            return h.update(t, padding=True), cnt
        got = call(stream)
        # reference: standard IV, compress the same blocks, finish with the *total* length in the length field
        H = list(a['iv'])
        for i in range(nblk):
            H = a['comp'](H, blocks[i * B:(i + 1) * B])
        want = mdsha.out(alg, mdsha._finish(a['endian'], a['w'], a['comp'], H, t, 8 * tail, P + nblk * bs + 8 * tail))
        if is_exc(got):
            ctx.eq('counter-preset:digest==reference', got, want, alg=alg, preset=P, nblk=nblk, tail=tail)
        else:
            ctx.eq('counter-preset:digest==reference', got[0], want, alg=alg, preset=P, nblk=nblk, tail=tail)
            ctx.eq('counter-preset:bitcnt', got[1], P + nblk * bs, alg=alg, preset=P)

def classify(case, fail):
    return None
