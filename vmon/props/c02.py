"""C02  AES, DES/TDEA, Serpent and Threefish encrypt exactly as standardized."""
from vmon.core import call, is_exc, pattern
from vmon.refs import aes as raes, des as rdes, serpent as rserp, skein as rsk

ID = 'C02'
RULE = ('class = (cipher, key form, key pattern, block pattern); key forms: AES 16/24/32 B, DES, TDEA as 1/2/3 separate keys or one '
        '8/16/24-byte string, Serpent every byte length 1..32 and non-byte bit lengths, Threefish 256/512/1024; key patterns: random, zero, '
        'ones, single-bit keys, DES weak/semi-weak/parity-only differences, Threefish extreme words; blocks: random, zero, ones, walking '
        'one; wrong sizes must be refused; gmul on all 65536 pairs; oracle = own standards-derived references cross-checked with libcrypto')
ASSUMPTIONS = ['own AES/DES/Serpent/Threefish references (self-tested on FIPS-197 App. C, classic DES vectors, NESSIE, Skein 1.3 KATs)',
               'libcrypto EVP (AES/DES/3DES) as cross-check of the references at start', 'Serpent byte order as pinned by tests/test_serpent.py']
ANCHORS = [('aes.py', 'AES.keyschedule'), ('aes.py', 'AES.enc'), ('aes.py', 'AES.dec'), ('aes.py', 'gmul'), ('des.py', 'DES.enc'), ('des.py', 'DES.dec'),
           ('des.py', 'subkey'), ('des.py', 'F'), ('des.py', 'TDEA.__init__'), ('des.py', 'TDEA.enc'), ('des.py', 'TDEA.dec'),
           ('serpent.py', 'Serpent.__init__'), ('serpent.py', 'Serpent.enc'), ('serpent.py', 'Serpent.dec'), ('serpent.py', '_keysched'),
           ('serpent.py', '_S'), ('serpent.py', '_Sinv'), ('serpent.py', '_L'), ('serpent.py', '_Linv'),
           ('threefish.py', 'Threefish.__init__'), ('threefish.py', 'Threefish.enc'), ('threefish.py', 'Threefish.dec')]
REQUIRED = ['siblings:enc/dec==standard', 'enc==standard', 'dec==standard', 'wrong-size-rejected', 'gmul==GF(2^8)', 'block-length']
NSHARDS = 14
SAN = {'quick': (2, 60), 'thorough': (2, 60)}

def selftest():
    msgs = [raes.selftest(), rdes.selftest(), rserp.selftest(), rsk.selftest()]
    try:
        from vmon.refs import ossl
        import random
        r = random.Random(5)
        for _ in range(25):
            b = r.randbytes(16)
            for kl in (16, 24, 32):
                k = r.randbytes(kl)
                assert ossl.cipher('AES-%d-ECB' % (8 * kl), k, b) == raes.enc(k, b)
                assert ossl.cipher('AES-%d-ECB' % (8 * kl), k, b, enc=0) == raes.dec(k, b)
            k = r.randbytes(24); b = r.randbytes(8)
            assert ossl.cipher('DES-ECB', k[:8], b) == rdes.enc(k[:8], b)
            assert ossl.cipher('DES-EDE3-ECB', k, b) == rdes.tdea_enc(k[:8], k[8:16], k[16:], b)
            assert ossl.cipher('DES-EDE-ECB', k[:16], b) == rdes.tdea_enc(k[:8], k[8:16], k[:8], b)
        msgs.append('AES/DES/TDEA references agree with libcrypto on 25 random cases each')
    except (OSError, ValueError, AttributeError) as e:
        msgs.append('libcrypto cross-check unavailable (%s)' % type(e).__name__)
    return '; '.join(msgs)

# ---- cipher adapters: build the crysp object / evaluate the reference ---------------------------------------------
CIPHERS = ['aes128', 'aes192', 'aes256', 'des', 'tdea1', 'tdea2', 'tdea3', 'tdea-s8', 'tdea-s16', 'tdea-s24',
           'serpent', 'tf256', 'tf512', 'tf1024']

def keylen(c, case):
    if c.startswith('aes'): return int(c[3:]) // 8
    if c == 'des' or c in ('tdea1', 'tdea-s8'): return 8
    if c in ('tdea2', 'tdea-s16'): return 16
    if c in ('tdea3', 'tdea-s24'): return 24
    if c == 'serpent': return case.get('kl', 16)
    return int(c[2:]) // 8

def blocklen(c):
    if c.startswith('aes') or c == 'serpent': return 16
    if c.startswith('tf'): return int(c[2:]) // 8
    return 8

def build(c, K, T=None, kbits=None):
    """the real crysp object"""
    if c.startswith('aes'):
        from crysp.aes import AES; return AES(K)
    if c == 'des':
        from crysp.des import DES; return DES(K)
    if c.startswith('tdea'):
        from crysp.des import TDEA
        if c.startswith('tdea-s'): return TDEA(K)
        if c == 'tdea1': return TDEA(K)
        if c == 'tdea2': return TDEA(K[:8], K[8:16])
        return TDEA(K[:8], K[8:16], K[16:24])
    if c == 'serpent':
        from crysp.serpent import Serpent
        if kbits is not None:
            from crysp.bits import Bits
            return Serpent(Bits(int.from_bytes(K, 'little') & ((1 << kbits) - 1), kbits))
        return Serpent(K)
    from crysp.threefish import Threefish
    return Threefish(K, T)

def ref(c, K, T, B, decrypt, kbits=None):
    if c.startswith('aes'):
        return (raes.dec if decrypt else raes.enc)(K, B)
    if c == 'des':
        return (rdes.dec if decrypt else rdes.enc)(K, B)
    if c.startswith('tdea'):
        n = len(K)
        k1, k2, k3 = K[:8], (K[8:16] if n >= 16 else K[:8]), (K[16:24] if n >= 24 else K[:8])
        return (rdes.tdea_dec if decrypt else rdes.tdea_enc)(k1, k2, k3, B)
    if c == 'serpent':
        if kbits is not None:
            v = int.from_bytes(K, 'little') & ((1 << kbits) - 1)
            if kbits < 256: v |= 1 << kbits
            Kb = v.to_bytes(32, 'little')            # already padded to 256 bits
            return (rserp.dec if decrypt else rserp.enc)(Kb, B)
        return (rserp.dec if decrypt else rserp.enc)(K, B)
    return (rsk.tf_dec if decrypt else rsk.tf_enc)(K, T, B)

KEYPATS = ['rand', 'zero', 'ones', 'walk', 'asc']
BLKPATS = ['rand', 'zero', 'ones', 'walk']

def cipher_cases(tier, rng):
    """shared with C03: the (cipher, key form, key pattern, block pattern) grid"""
    reps = 6 if tier == 'quick' else 60
    for rep in range(reps):
        for c in CIPHERS:
            kls = [None]
            if c == 'serpent':
                kls = list(range(1, 33))
            for kl in kls:
                for kp in KEYPATS:
                    for bp in BLKPATS:
                        if c == 'serpent' and tier == 'quick' and kl not in (1, 5, 15, 16, 17, 24, 31, 32) and (kp, bp) != ('rand', 'rand'):
                            continue
                        d = {'k': 'cipher', 'c': c, 'kp': kp, 'bp': bp}
                        if kl: d['kl'] = kl
                        yield d
            # single-bit keys: a walking one over the whole key
            klb = 8 * keylen(c, {'kl': 32})
            step = 1 if tier == 'thorough' else max(1, klb // 16)
            for bit in range(rep % step, klb, step):
                d = {'k': 'cipher', 'c': c, 'kp': 'bit', 'bit': bit, 'bp': 'rand'}
                if c == 'serpent': d['kl'] = 32
                yield d
        for kbits in ([1, 7, 9, 63, 65, 127, 129, 191, 200, 255] if tier == 'quick' else range(1, 256)):
            yield {'k': 'cipher', 'c': 'serpent', 'kp': 'rand', 'bp': 'rand', 'kbits': kbits, 'kl': (kbits + 7) // 8}
        for i, w in enumerate(rdes.WEAK + rdes.SEMIWEAK):
            for c in ('des', 'tdea1', 'tdea-s8'):
                yield {'k': 'cipher', 'c': c, 'kp': 'weak', 'hex': w, 'bp': 'rand'}
        for j in range(8 if tier == 'quick' else 64):
            yield {'k': 'cipher', 'c': 'des', 'kp': 'parity', 'bp': 'rand', 'j': j}
        for c in ('tdea3', 'tdea-s24'):
            for eqp in ('k1=k2', 'k2=k3', 'k1=k3', 'k1=k2=k3'):
                yield {'k': 'cipher', 'c': c, 'kp': 'eq', 'eqp': eqp, 'bp': 'rand'}
        for c in ('tf256', 'tf512', 'tf1024'):
            for kw in ('k0', 'kmax', 'kmix'):
                for tw in ('t0', 'tmax', 'tmix', 'trand'):
                    yield {'k': 'cipher', 'c': c, 'kp': kw, 'tp': tw, 'bp': 'ones' if tw == 'tmax' else 'rand'}

def sibling_cases(tier):
    for fam in ('aes-zero-extended-keys', 'aes-zero-keys', 'aes-mixed', 'threefish-sizes', 'serpent-key-lengths', 'serpent-zero-extended-keys', 'des-family', 'all-ciphers'):
        for j in range(6 if tier == 'quick' else 60):
            yield {'k': 'siblings', 'fam': fam, 'j': j}

def sibling_specs(case, rng):
    """[(name, cipher id, K, T, kbits)] for a family of simultaneously alive cipher objects"""
    fam = case['fam']
    R = rng.randbytes
    if fam == 'aes-zero-extended-keys':
        K = R(16) if case['j'] % 2 else R(8) + bytes(8)
        return [('AES-128', 'aes128', K, None, None), ('AES-192', 'aes192', K + bytes(8), None, None), ('AES-256', 'aes256', K + bytes(16), None, None)]
    if fam == 'aes-zero-keys':
        return [('AES-128(0)', 'aes128', bytes(16), None, None), ('AES-192(0)', 'aes192', bytes(24), None, None), ('AES-256(0)', 'aes256', bytes(32), None, None)]
    if fam == 'aes-mixed':
        K = R(32)
        return [('AES-128', 'aes128', K[:16], None, None), ('AES-192', 'aes192', K[:24], None, None), ('AES-256', 'aes256', K, None, None), ('AES-128b', 'aes128', K[16:], None, None)]
    if fam == 'threefish-sizes':
        T = R(16)
        return [('TF-256', 'tf256', R(32), T, None), ('TF-512', 'tf512', R(64), T, None), ('TF-1024', 'tf1024', R(128), R(16), None), ('TF-256b', 'tf256', R(32), R(16), None)]
    if fam == 'serpent-key-lengths':
        K = R(32)
        return [('Serpent-%d' % n, 'serpent', K[:n], None, None) for n in (16, 24, 32, 5, 31)]
    if fam == 'serpent-zero-extended-keys':
        K = R(16) if case['j'] % 2 else bytes(16)
        return [('Serpent-16', 'serpent', K, None, None), ('Serpent-24(K+0)', 'serpent', K + bytes(8), None, None), ('Serpent-32(K+0)', 'serpent', K + bytes(16), None, None),
                ('Serpent-other', 'serpent', R(16), None, None), ('Serpent-20(K+0)', 'serpent', K + bytes(4), None, None)]
    if fam == 'des-family':
        K = R(24)
        return [('DES-k1', 'des', K[:8], None, None), ('DES-k2', 'des', K[8:16], None, None), ('TDEA-3', 'tdea3', K, None, None), ('TDEA-s16', 'tdea-s16', K[:16], None, None), ('TDEA-1', 'tdea1', K[:8], None, None)]
    K = R(128)
    return [('AES-256', 'aes256', K[:32], None, None), ('DES', 'des', K[:8], None, None), ('Serpent-32', 'serpent', K[:32], None, None), ('TF-512', 'tf512', K[:64], K[64:80], None),
            ('TDEA-s24', 'tdea-s24', K[:24], None, None)]

def material(case, rng):
    """(K, T, kbits) for a cipher case"""
    c = case['c']; kl = keylen(c, case); kp = case['kp']
    T = None
    if kp in ('rand', 'zero', 'ones', 'walk', 'asc'):
        K = pattern(rng, kl, kp)
    elif kp == 'bit':
        b = bytearray(kl); b[case['bit'] // 8] = 0x80 >> (case['bit'] % 8); K = bytes(b)
    elif kp == 'weak':
        K = bytes.fromhex(case['hex']) * (kl // 8)
    elif kp == 'parity':
        K = rng.randbytes(kl)
    elif kp == 'eq':
        a_, b_ = rng.randbytes(8), rng.randbytes(8)
        K = {'k1=k2': a_ + a_ + b_, 'k2=k3': a_ + b_ + b_, 'k1=k3': a_ + b_ + a_, 'k1=k2=k3': a_ * 3}[case['eqp']]
    elif kp in ('k0', 'kmax', 'kmix'):
        words = {'k0': [0] * (kl // 8), 'kmax': [2 ** 64 - 1] * (kl // 8)}.get(kp) or [rng.choice([0, 2 ** 64 - 1, 1, 2 ** 63]) for _ in range(kl // 8)]
        K = b''.join(w.to_bytes(8, 'little') for w in words)
    if c.startswith('tf'):
        tp = case.get('tp', 'trand')
        T = {'t0': bytes(16), 'tmax': b'\xff' * 16, 'tmix': b'\xff' * 8 + bytes(8)}.get(tp) or rng.randbytes(16)
    return K, T, case.get('kbits')

def cases(tier, rng):
    for x in cipher_cases(tier, rng):
        yield x
    for x in sibling_cases(tier):
        yield x
    for a in range(0, 256, 8):
        yield {'k': 'gmul', 'lo': a, 'hi': a + 8}
    yield from reject_cases()

def reject_cases():
    for kl in (0, 1, 15, 17, 20, 31, 33, 48):
        yield {'k': 'reject', 'what': 'aes-key', 'n': kl}
    for bl in (0, 1, 15, 17, 31, 32, 48):
        for kl in (16, 24, 32):
            yield {'k': 'reject', 'what': 'aes-block', 'n': bl, 'kl': kl}
    for kl in (0, 7, 9, 16):
        yield {'k': 'reject', 'what': 'des-key', 'n': kl}
    for bl in (0, 7, 9, 16):
        yield {'k': 'reject', 'what': 'des-block', 'n': bl}
        yield {'k': 'reject', 'what': 'tdea-block', 'n': bl}
    for kl in (9, 12, 15, 17, 20, 23, 25, 32):
        yield {'k': 'reject', 'what': 'tdea-key-string', 'n': kl}
    for form in ('k1-short', 'k2-short', 'k3-long', 'string+k2', 'k1,None,k3-short', 'k2-empty', 'k3-empty', 'k2-empty,k3', 'k1-empty', 'k1,None,k3-empty'):
        yield {'k': 'reject', 'what': 'tdea-mixed', 'form': form}
    for form in ('bits16', 'bits120', 'ints>255', 'ints17'):
        yield {'k': 'reject', 'what': 'aes-nonbytes-block', 'form': form}
    for kl in (33, 34, 40, 64):
        yield {'k': 'reject', 'what': 'serpent-key', 'n': kl}
    for bl in (0, 15, 17, 32):
        yield {'k': 'reject', 'what': 'serpent-block', 'n': bl}
    for kl in (0, 16, 31, 33, 48, 65, 96, 127, 129):
        yield {'k': 'reject', 'what': 'tf-key', 'n': kl}
    for tl in (0, 8, 15, 17, 32):
        yield {'k': 'reject', 'what': 'tf-tweak', 'n': tl}
    for kl in (32, 64, 128):
        for bl in (0, kl - 1, kl + 1, kl // 2, 2 * kl) + ((64,) if kl == 32 else (32,)):
            yield {'k': 'reject', 'what': 'tf-block', 'n': bl, 'kl': kl}

def block_of(case, rng, n):
    return pattern(rng, n, case['bp'])

def run(case, ctx, rng):
    k = case['k']
    if k == 'cipher':
        c = case['c']
        K, T, kbits = material(case, rng)
        n = blocklen(c)
        B = block_of(case, rng, n)
        ctx.cls((c, case.get('kl', 0), case['kp'], case.get('tp', ''), case.get('eqp', ''), case['bp'], 'bits' if kbits else ''))
        det = dict(cipher=c, K=K, T=T, B=B, kbits=kbits)
        obj = call(build, c, K, T, kbits)
        if is_exc(obj):
            ctx.eq('enc==standard', obj, ref(c, K, T, B, False, kbits), **det)
            return
        with_states(ctx, c)
        e = call(obj.enc, B)
        ctx.eq('enc==standard', e, ref(c, K, T, B, False, kbits), **det)
        d = call(obj.dec, B)
        ctx.eq('dec==standard', d, ref(c, K, T, B, True, kbits), **det)
        if not is_exc(e):
            ctx.check('block-length', isinstance(e, bytes) and len(e) == n, len(e), n, **det)
        o2 = call(build, c, K, T, kbits)
        if not is_exc(o2):
            ctx.eq('dec==standard', call(o2.dec, B), ref(c, K, T, B, True, kbits), first_operation='dec', **det)
            ctx.eq('enc==standard', call(o2.enc, B), ref(c, K, T, B, False, kbits), after_first_dec=True, **det)
        # the same object again, in the other order (a cached schedule must survive both directions)
        ctx.eq('enc==standard', call(obj.enc, B), ref(c, K, T, B, False, kbits), again_after_dec=True, **det)
        ctx.eq('dec==standard', call(obj.dec, B), ref(c, K, T, B, True, kbits), again_after_enc=True, **det)
        if c == 'des' and case['kp'] in ('rand', 'walk'):
            # DES reads its public key attribute at every call: assigning it re-keys the object, in both directions
            from crysp.bits import Bits
            K3 = rng.randbytes(8)
            obj.K = Bits(K3, 64)
            ctx.eq('rekeyed:enc==standard', call(obj.enc, B), ref(c, K3, T, B, False), K=K3, B=B)
            ctx.eq('rekeyed:dec==standard', call(obj.dec, B), ref(c, K3, T, B, True), K=K3, B=B)
            K4 = rng.randbytes(8)
            obj.K.ival = Bits(K4, 64).ival                       # ... and refilled in place
            ctx.eq('rekeyed:enc==standard', call(obj.enc, B), ref(c, K4, T, B, False), K=K4, B=B, how='K refilled in place')
            ctx.eq('rekeyed:dec==standard', call(obj.dec, B), ref(c, K4, T, B, True), K=K4, B=B, how='K refilled in place')
        if c in ('aes128', 'aes192', 'aes256', 'serpent') and kbits is None and case['kp'] in ('rand', 'walk', 'ones'):
            # the key given as a Bits object the caller keeps: changed before the first use, and refilled to build a second cipher
            from crysp.bits import Bits
            kb = Bits(K, bitorder=1)
            mk = (lambda: __import__('crysp.aes', fromlist=['AES']).AES(kb)) if c.startswith('aes') else (lambda: __import__('crysp.serpent', fromlist=['Serpent']).Serpent(kb))
            o1 = call(mk)
            K2 = rng.randbytes(len(K))
            kb.ival = Bits(K2, bitorder=1).ival                 # the buffer now holds another key
            o2 = call(mk)
            kb.ival = 0
            if not is_exc(o1) and not is_exc(o2):
                ctx.eq('enc/dec==standard', call(o1.enc, B), ref(c, K, T, B, False), K=K, B=B, key_object='changed by the caller before the first use')
                ctx.eq('enc/dec==standard', call(o2.enc, B), ref(c, K2, T, B, False), K=K2, B=B, key_object='one buffer refilled for a second cipher')
                ctx.eq('enc/dec==standard', call(o1.dec, B), ref(c, K, T, B, True), K=K, B=B, key_object='changed by the caller before the first use')
        if case['kp'] == 'parity':
            # keys differing only in the (ignored) parity bits compute the same function
            K2 = bytes(b ^ 1 if (case['j'] >> (i % 6)) & 1 else b for i, b in enumerate(K))
            ctx.eq('des-parity-bits-ignored', call(lambda: build(c, K2).enc(B)), e, K=K, K2=K2)
    elif k == 'siblings':
        from vmon.core import siblings
        ctx.cls(('siblings', case['fam'], case['j'] % 3))
        specs = []
        for name, c, K, T, kb in sibling_specs(case, rng):
            n = blocklen(c); B1 = rng.randbytes(n); B2 = rng.randbytes(n)
            specs.append((name, (lambda c=c, K=K, T=T, kb=kb: build(c, K, T, kb)),
                          [('enc(B1)', (lambda o, B=B1: o.enc(B)), ref(c, K, T, B1, False, kb)), ('dec(B1)', (lambda o, B=B1: o.dec(B)), ref(c, K, T, B1, True, kb)),
                           ('enc(B2)', (lambda o, B=B2: o.enc(B)), ref(c, K, T, B2, False, kb)), ('dec(B2)', (lambda o, B=B2: o.dec(B)), ref(c, K, T, B2, True, kb))]))
        late = specs.pop() if len(specs) > 3 else None
        siblings(ctx, rng, 'siblings:enc/dec==standard', specs, late=late, family=case['fam'])
    elif k == 'gmul':
        from crysp.aes import gmul
        ctx.cls(('gmul', case['lo']))
        for a in range(case['lo'], case['hi']):
            for b in range(256):
                ctx.eq('gmul==GF(2^8)', call(gmul, a, b), raes.gmul(a, b), a=a, b=b)
        ctx.exhaustive['gmul on all 65536 byte pairs'] += 256 * (case['hi'] - case['lo'])
    elif k == 'reject':
        run_reject(case, ctx, rng)

_states_installed = [False]
def with_states(ctx, c):
    """record which S-box inputs the workload drives (evidence: states_seen)"""
    if _states_installed[0]:
        _states_installed[1] = ctx
        return
    import crysp.aes as A, crysp.des as D, crysp.serpent as Sp
    _states_installed[0] = True
    _states_installed.append(ctx)
    oS, oSi, oD, oSp, oSpi = A.Sbox, A.Sbox_inv, D.S, Sp._S, Sp._Sinv
    def Sbox(state):
        cx = _states_installed[1]
        for i, v in enumerate(state.ival): cx.states['aes-sbox (pos,in)'].add((i, v))
        return oS(state)
    def Sbox_inv(state):
        cx = _states_installed[1]
        for i, v in enumerate(state.ival): cx.states['aes-sbox-inv (pos,in)'].add((i, v))
        return oSi(state)
    def S(n, x):
        _states_installed[1].states['des-sbox (box,in)'].add((n, x))
        return oD(n, x)
    def _S(i, X):
        v = X.ival; st = _states_installed[1].states['serpent-sbox (box,nibble)']
        for j in range(0, 32, 5):
            st.add((i, ((v >> j) & 1) | (((v >> (32 + j)) & 1) << 1) | (((v >> (64 + j)) & 1) << 2) | (((v >> (96 + j)) & 1) << 3)))
        return oSp(i, X)
    A.Sbox, A.Sbox_inv, D.S, Sp._S = Sbox, Sbox_inv, S, _S

def run_reject(case, ctx, rng):
    w = case['what']; n = case.get('n')
    ctx.cls(('reject', w, n, case.get('kl', ''), case.get('form', '')))
    from crysp.aes import AES
    from crysp.des import DES, TDEA
    from crysp.serpent import Serpent
    from crysp.threefish import Threefish
    R = rng.randbytes
    def expect_refusal(f, **det):
        r = call(f)
        ctx.check('wrong-size-rejected', is_exc(r), r, 'an exception (the size is not defined by the algorithm)', what=w, n=n, **det)
    def then_still_standard(c, K, T, obj, bad, op):
        # a refused block must leave the object as it was: the next valid call still matches the standard
        B = R(blocklen(c))
        call(getattr(obj, op), bad)
        ctx.eq('after-refusal:enc==standard', call(obj.enc, B), ref(c, K, T, B, False), what=w, refused=op, n=n)
        ctx.eq('after-refusal:dec==standard', call(obj.dec, B), ref(c, K, T, B, True), what=w, refused=op, n=n)
    if w == 'aes-key': expect_refusal(lambda: AES(R(n)).enc(R(16)))
    elif w == 'aes-block':
        K = R(case['kl']); B = R(n)
        expect_refusal(lambda: AES(K).enc(B), op='enc', kl=case['kl'])
        expect_refusal(lambda: AES(K).dec(B), op='dec', kl=case['kl'])
        for op in ('enc', 'dec'):
            then_still_standard('aes%d' % (8 * case['kl']), K, None, AES(K), B, op)
    elif w == 'des-key': expect_refusal(lambda: DES(R(n)).enc(R(8)))
    elif w == 'des-block':
        K = R(8); B = R(n)
        expect_refusal(lambda: DES(K).enc(B), op='enc'); expect_refusal(lambda: DES(K).dec(B), op='dec')
        for op in ('enc', 'dec'):
            then_still_standard('des', K, None, DES(K), B, op)
    elif w == 'tdea-block':
        K = R(24); B = R(n)
        expect_refusal(lambda: TDEA(K[:8], K[8:16], K[16:]).enc(B), op='enc'); expect_refusal(lambda: TDEA(K[:8], K[8:16], K[16:]).dec(B), op='dec')
        for op in ('enc', 'dec'):
            then_still_standard('tdea3', K, None, TDEA(K[:8], K[8:16], K[16:]), B, op)
    elif w == 'tdea-key-string': expect_refusal(lambda: TDEA(R(n)).enc(R(8)))
    elif w == 'tdea-mixed':
        f = case['form']
        if f == 'k1-short': expect_refusal(lambda: TDEA(R(7), R(8), R(8)).enc(R(8)), form=f)
        if f == 'k2-short': expect_refusal(lambda: TDEA(R(8), R(5), R(8)).enc(R(8)), form=f)
        if f == 'k3-long': expect_refusal(lambda: TDEA(R(8), R(8), R(9)).enc(R(8)), form=f)
        if f == 'string+k2': expect_refusal(lambda: TDEA(R(16), R(8)).enc(R(8)), form=f)
        if f == 'k1,None,k3-short': expect_refusal(lambda: TDEA(R(8), None, R(3)).enc(R(8)), form=f)
        if f == 'k2-empty': expect_refusal(lambda: TDEA(R(8), b'').enc(R(8)), form=f)
        if f == 'k3-empty': expect_refusal(lambda: TDEA(R(8), R(8), b'').enc(R(8)), form=f)
        if f == 'k2-empty,k3': expect_refusal(lambda: TDEA(R(8), b'', R(8)).enc(R(8)), form=f)
        if f == 'k1-empty': expect_refusal(lambda: TDEA(b'').enc(R(8)), form=f)
        if f == 'k1,None,k3-empty': expect_refusal(lambda: TDEA(R(8), None, b'').enc(R(8)), form=f)
    elif w == 'aes-nonbytes-block':
        from crysp.bits import Bits
        blk = {'bits16': Bits(0x1234, 16), 'bits120': Bits(R(15), bitorder=1), 'ints>255': [300] * 16, 'ints17': list(range(17))}[case['form']]
        K = R(16)
        expect_refusal(lambda: AES(K).enc(blk), form=case['form'], op='enc'); expect_refusal(lambda: AES(K).dec(blk), form=case['form'], op='dec')
    elif w == 'serpent-key': expect_refusal(lambda: Serpent(R(n)).enc(R(16)))
    elif w == 'serpent-block':
        K = R(16); B = R(n)
        expect_refusal(lambda: Serpent(K).enc(B), op='enc'); expect_refusal(lambda: Serpent(K).dec(B), op='dec')
        for op in ('enc', 'dec'):
            then_still_standard('serpent', K, None, Serpent(K), B, op)
    elif w == 'tf-key': expect_refusal(lambda: Threefish(R(n), R(16)).enc(R(max(n, 1))))
    elif w == 'tf-tweak': expect_refusal(lambda: Threefish(R(32), R(n)).enc(R(32)))
    elif w == 'tf-block':
        K = R(case['kl']); T = R(16); B = R(n)
        expect_refusal(lambda: Threefish(K, T).enc(B), op='enc', kl=case['kl']); expect_refusal(lambda: Threefish(K, T).dec(B), op='dec', kl=case['kl'])
        for op in ('enc', 'dec'):
            then_still_standard('tf%d' % (8 * case['kl']), K, T, Threefish(K, T), B, op)

def classify(case, fail):
    return None
