"""C14  Hashing a message piecewise gives the same digest as hashing it at once."""
import hashlib, itertools
from vmon.core import call, is_exc, pattern
from vmon.refs import mdsha, blake as rblake, simhash
from vmon.props import c01

ID = 'C14'
RULE = ('class = (hash, cut-point multiset in block units, tail class); ALL 126 cut-point multisets 0<=p1<=..<=pk<=4 blocks (k<=4, so empty '
        'pieces and multi-block final pieces included) x final tails {0,1,spill-1,spill,blocksize-1} for MD4, MD5, SHA-0/1, SHA-2, BLAKE-n, '
        'BLAKE2b/s; the bit counter is read after every non-final piece; Nilsimsa: every byte cut of messages up to 64 bytes and multi-cuts; '
        'oracle = one-shot digest of a fresh object AND the external reference (hashlib / own reference)')
ASSUMPTIONS = ['hashlib for MD5/SHA/BLAKE2', 'own MD4/SHA-0/BLAKE references', 'Nilsimsa model']
ANCHORS = [('padding.py', 'blockiterator.iterblocks'), ('blake.py', 'Blake2.iterblocks'), ('blake.py', 'Blake2.update'), ('blake.py', 'Blake.update'),
           ('sha.py', 'SHA1.update'), ('sha.py', 'SHA2.update'), ('md.py', 'MD4.update'), ('md.py', 'MD5.update'),
           ('nilsimsa.py', 'Nilsimsa.update'), ('nilsimsa.py', 'Nilsimsa.digest')]
REQUIRED = ['used-object:piecewise==reference', 'nilsimsa:reuse==model', 'refused-piece:piecewise==reference', 'fresh-object-update==reference', 'interleaved:piecewise==reference', 'piecewise==oneshot', 'piecewise==reference', 'bitcnt-after-piece', 'nilsimsa:cut==oneshot', 'nilsimsa:cut==model']
NSHARDS = 14
SAN = {'quick': (2, 40), 'thorough': (2, 40)}
HASHES = c01.ALGS + ['blake224', 'blake256', 'blake384', 'blake512', 'blake2b', 'blake2s']

def selftest():
    return rblake.selftest() + '; ' + simhash.selftest()

def info(name):
    if name == 'blake2b': return 128, 64
    if name == 'blake2s': return 64, 32
    if name.startswith('blake'):
        n = int(name[5:]); return (128 if n > 256 else 64), (64 if n > 256 else 32)
    a = mdsha.ALGS[name]; return a['block'], a['w']

def make(name):
    from crysp.blake import Blake, Blake2
    if name == 'blake2b': return Blake2(512)
    if name == 'blake2s': return Blake2(256)
    if name.startswith('blake'): return Blake(int(name[5:]))
    return c01.make(name)

def external(name, M):
    if name == 'blake2b': return hashlib.blake2b(M).digest()
    if name == 'blake2s': return hashlib.blake2s(M).digest()
    if name.startswith('blake'): return rblake.blake(int(name[5:]), M)
    return mdsha.digest(name, M)

def multisets(kmax=4, top=4):
    out = [()]
    for k in range(1, kmax + 1):
        out += list(itertools.combinations_with_replacement(range(top + 1), k))
    return out

def cases(tier, rng):
    for name in HASHES:
        B, w = info(name)
        spill = B - w // 4
        tails = [0, 1, spill - 1, spill, B - 1] if not (name in ('blake2b', 'blake2s')) else [0, 1, B // 2, B - 1]
        for cuts in multisets():
            for tail in tails:
                for pat in (('rand',) if tier == 'quick' else ('rand', 'zero', 'ones', 'x80')):
                    yield {'k': 'cuts', 'h': name, 'cuts': list(cuts), 'tail': tail, 'pat': pat}
        for j in range(30 if tier == 'thorough' else 2):
            yield {'k': 'long', 'h': name, 'j': j}
        if name in ('blake2b', 'blake2s', 'md5', 'sha1', 'sha256'):
            for total in (65536, 131072) if name.startswith('blake2') else (65536,):          # exact multiples of 64 KiB, one-shot against pieces
                yield {'k': 'long', 'h': name, 'j': 0, 'total': total}
    for j in range(len(HASHES) * (6 if tier == 'quick' else 40)):
        yield {'k': 'interleaved', 'h': HASHES[j % len(HASHES)], 'other': HASHES[(j * 7 + j // len(HASHES)) % len(HASHES)], 'j': j}
    for name in HASHES:
        for j in range(4 if tier == 'quick' else 30):
            yield {'k': 'used-object', 'h': name, 'j': j}
        for j in range(4 if tier == 'quick' else 30):
            yield {'k': 'refused-piece', 'h': name, 'j': j}
        if not name.startswith('blake'):
            for j in range(3 if tier == 'quick' else 20):
                yield {'k': 'no-initstate', 'h': name, 'j': j}
            B, w = info(name)
            for top in ((32, 64) if w == 64 else (32,)):
                for back in (3, 2, 1, 0, -1):             # blocks before / after the point where the bit counter needs another word
                    for tail in (0, 1, B - 1):
                        yield {'k': 'long-stream', 'h': name, 'preset': (1 << top) - back * 8 * B, 'np': 1 + (back + tail) % 3, 'tail': tail}
    for n in range(0, 25 if tier == 'thorough' else 17):
        yield {'k': 'nil-3pieces', 'n': n}
    for j in range(20 if tier == 'quick' else 200):
        yield {'k': 'nil-reuse', 'j': j}
    for n in range(0, 65 if tier == 'thorough' else 41):
        yield {'k': 'nil-allcuts', 'n': n, 'target': [None, 53, 11, 200][n % 4]}
    for j in range(40 if tier == 'quick' else 600):
        yield {'k': 'nil-multi', 'n': [70, 100, 256, 300, 1000][j % 5], 'ncuts': 2 + j % 4}

def piecewise(h, name, pieces, final, flag=True, preset=None, init=None, prefix_of=None):
    """returns (digest, [bitcnt after each non-final piece]); `flag` is the truthy value that marks the final piece,
    `preset` a bit counter standing for a long stream already fed, `init` the arguments of initstate (salt, ...),
    `prefix_of`: every non-final piece is handed over as (a longer buffer, bitlen = bits of the piece)"""
    h.initstate(*(init or ((), {}))[0], **(init or ((), {}))[1])
    if preset is not None:
        h.padmethod.bitcnt = preset
    cnts = []
    for p in pieces:
        if prefix_of is not None:
            h.update(p + prefix_of, bitlen=8 * len(p))          # (an empty piece becomes: a stale buffer with bitlen=0)
        else:
            h.update(p)
        cnts.append(h.padmethod.bitcnt)
    return h.update(final, padding=flag), cnts

def run(case, ctx, rng):
    k = case['k']
    if k in ('cuts', 'long'):
        name = case['h']
        B, w = info(name)
        if k == 'cuts':
            cuts, tail = case['cuts'], case['tail']
            M = pattern(rng, 4 * B + tail, case['pat'])
            ctx.cls((name, str(cuts), tail))
        else:
            nb = rng.randrange(5, 40); tail = rng.randrange(0, B)
            if case.get('total'):
                nb, tail = case['total'] // B - 1, B
            cuts = sorted(rng.randrange(0, nb + 1) for _ in range(rng.randrange(1, 7)))
            M = rng.randbytes(nb * B + tail)
            ctx.cls((name, 'long', len(cuts), case.get('total', 0)))
        pts = [0] + [c * B for c in cuts]
        pieces = [M[pts[i]:pts[i + 1]] for i in range(len(pts) - 1)]
        final = M[pts[-1]:]
        det = dict(h=name, cuts=cuts, tail=tail, pat=case.get('pat'))
        one = call(make(name), M)
        ext = external(name, M)
        flag = [True, 1, 'yes', 2][(sum(cuts) + tail + len(cuts)) % 4] if k == 'cuts' else True          # any truthy value closes the stream
        det['final_flag'] = repr(flag)
        got = call(piecewise, make(name), name, pieces, final, flag)
        if is_exc(got):
            ctx.eq('piecewise==oneshot', got, one, **det)
            ctx.eq('piecewise==reference', got, ext, **det)
        else:
            ctx.eq('piecewise==oneshot', got[0], one, **det)
            ctx.eq('piecewise==reference', got[0], ext, **det)
            acc, want = 0, []
            for p in pieces:
                acc += 8 * len(p); want.append(acc)
            if pieces:
                ctx.eq('bitcnt-after-piece', got[1], want, **det)
        ctx.eq('oneshot==reference', one, ext, **det)
        if k == 'cuts' and pieces and (sum(cuts) + tail) % 3 == 1:
            # the same stream under a configuration given to initstate: salt (BLAKE), salt / personalization / output length (BLAKE2)
            if (name in ('blake2b', 'blake2s')):
                l = w // 4; sa = rng.randbytes(l); pe = rng.randbytes(l); ol = rng.randrange(1, w + 1)
                init = ((), dict(salt=sa, pers=pe, outlen=ol))
                wantc = (hashlib.blake2b if name == 'blake2b' else hashlib.blake2s)(M, salt=sa, person=pe, digest_size=ol).digest()
            elif name.startswith('blake'):
                sv = rng.getrandbits(4 * w) | 1
                init = ((sv,), {}); wantc = rblake.blake(int(name[5:]), M, sv)
            else:
                init = None
            if init is not None:
                gc = call(piecewise, make(name), name, pieces, final, True, None, init)
                ctx.eq('piecewise==reference', gc if is_exc(gc) else gc[0], wantc, configured=repr(init)[:80], **det)
            if not (name in ('blake2b', 'blake2s')):
                # non-final pieces handed over as a prefix of a longer buffer (buffer, bitlen): only the announced bits are consumed
                gp = call(piecewise, make(name), name, pieces, final, True, None, None, rng.randbytes(B))
                ctx.eq('piecewise==reference', gp if is_exc(gp) else gp[0], ext, pieces_as='(longer buffer, bitlen)', **det)
                if not is_exc(gp):
                    acc, wantn = 0, []
                    for p in pieces:
                        acc += 8 * len(p); wantn.append(acc)
                    ctx.eq('bitcnt-after-piece', gp[1], wantn, pieces_as='(longer buffer, bitlen)', **det)
        if k == 'cuts' and (sum(cuts) + tail) % 2 == 0:
            # the usual read loop: every piece travels through ONE buffer the caller refills (and scrubs) between updates
            def reused_buffer():
                h = make(name); h.initstate()
                buf = bytearray()
                for p in pieces:
                    buf[:] = p
                    h.update(buf)
                    for i in range(len(buf)): buf[i] = 0xAA
                buf[:] = final
                return h.update(buf, padding=True), bytes(buf)
            rb = call(reused_buffer)
            if True:
                ctx.eq('piecewise==reference', rb if is_exc(rb) else rb[0], ext, pieces_through='one reused bytearray', **det)
                if not is_exc(rb):
                    ctx.eq('piecewise==reference', rb[1], final, pieces_through='one reused bytearray: final buffer left unchanged', **det)
    elif k == 'long-stream':
        # a stream whose length needs more than one word of the length field: the counter is preset (as if that many bits had been
        # fed), whole-block pieces follow, then the final piece; reference = same compressions, total length in the length field
        name = case['h']; a = mdsha.ALGS[name]
        B, w = info(name); P, npieces, tail = case['preset'], case['np'], case['tail']
        ctx.cls((name, 'long-stream', P.bit_length(), (P >> 3) % 5, npieces, tail))
        pieces = [rng.randbytes(B * (1 + i % 2)) for i in range(npieces)]; final = rng.randbytes(tail)
        got = call(piecewise, make(name), name, pieces, final, True, P)
        H = list(a['iv']); fed = 0
        for p in pieces:
            for i in range(0, len(p), B):
                H = a['comp'](H, p[i:i + B])
            fed += 8 * len(p)
        want = mdsha.out(name, mdsha._finish(a['endian'], a['w'], a['comp'], H, final, 8 * tail, P + fed + 8 * tail))
        det = dict(h=name, preset=hex(P), pieces=[len(p) for p in pieces], tail=tail)
        ctx.eq('piecewise==reference', got if is_exc(got) else got[0], want, **det)
        if not is_exc(got):
            acc, wantc = P, []
            for p in pieces:
                acc += 8 * len(p); wantc.append(acc)
            ctx.eq('bitcnt-after-piece', got[1], wantc, **det)
    elif k == 'interleaved':
        # history across objects: two streams fed alternately, a new object constructed and one-shot calls made mid-stream
        name, other = case['h'], case['other']
        B, w = info(name); B2, w2 = info(other)
        ctx.cls((name, 'interleaved-with', other, case['j'] % 3))
        M = rng.randbytes(3 * B + rng.choice([0, 1, B - 1])); N = rng.randbytes(2 * B2 + rng.choice([0, 5]))
        def run_():
            h1 = make(name); h2 = make(other)
            h1.initstate(); h2.initstate()
            h1.update(M[:B]); c1 = h1.padmethod.bitcnt
            h2.update(N[:B2])
            h3 = make(name)                       # a sibling of the same geometry appears mid-stream
            one = h3(M[:7])
            h1.update(M[B:2 * B]); c2 = h1.padmethod.bitcnt
            make(other)(N)                        # a one-shot call on yet another object
            d2 = h2.update(N[B2:], padding=True)
            d1 = h1.update(M[2 * B:], padding=True)
            return d1, d2, one, (c1, c2)
        got = call(run_)
        det = dict(h=name, other=other, lenM=len(M), lenN=len(N))
        if is_exc(got):
            ctx.eq('interleaved:piecewise==reference', got, external(name, M), **det)
        else:
            ctx.eq('interleaved:piecewise==reference', got[0], external(name, M), **det)
            ctx.eq('interleaved:piecewise==reference', got[1], external(other, N), stream='second', **det)
            ctx.eq('interleaved:piecewise==reference', got[2], external(name, M[:7]), stream='one-shot sibling', **det)
            ctx.eq('bitcnt-after-piece', list(got[3]), [8 * B, 16 * B], interleaved=True, **det)
    elif k == 'used-object':
        # the streamed object has a past: one-shot digests with options (salt, bit length, output length), an abandoned stream
        name = case['h']
        B, w = info(name)
        ctx.cls((name, 'used-object', case['j'] % 4))
        M = rng.randbytes(2 * B + rng.choice([0, 1, B - 1])); X = rng.randbytes(40)
        def run_():
            h = make(name)
            if name in ('blake2b', 'blake2s'):
                h(X, outlen=7, salt=bytes(range(w // 4)))
                h(X, fanout=3, depth=2, leafl=9, noffset=1, ndepth=1, inner=5)
            elif name.startswith('blake'):
                h(X, rng.getrandbits(64) | 1)
                h(X, 5, 77)
            else:
                h(X, 77)
            if case['j'] % 2:
                h.initstate(); h.update(M[:B])            # an abandoned stream
            h.initstate()
            h.update(M[:B])
            d = h.update(M[B:], padding=True)
            h.initstate(); h.update(M[:B])                # abandoned again, then a one-shot call on the same object
            return d, h(M)
        got = call(run_)
        det = dict(h=name, lenM=len(M))
        if is_exc(got):
            ctx.eq('used-object:piecewise==reference', got, external(name, M), **det)
        else:
            ctx.eq('used-object:piecewise==reference', got[0], external(name, M), **det)
            ctx.eq('piecewise==oneshot', got[0], got[1], used_object=True, **det)
    elif k == 'refused-piece':
        # fault sequence: a piece that is refused (not block-aligned without padding, or not bytes) in the middle of a stream;
        # the stream continues with correct pieces and must still give the one-shot digest
        name = case['h']
        B, w = info(name)
        ctx.cls((name, 'refused-piece', case['j'] % 4))
        M = rng.randbytes(3 * B + rng.choice([1, B - 1, B // 2]))
        def run_():
            h = make(name); h.initstate()
            h.update(M[:B])
            r1 = call(h.update, M[B:B + 5] if case['j'] % 2 else M[:2 * B + 9])     # partial (also after whole blocks) without padding: refused
            r2 = call(h.update, 'not bytes')
            c = h.padmethod.bitcnt
            h.update(M[B:2 * B])
            r3 = call(h.update, M[:B + 3])
            if not (name in ('blake2b', 'blake2s')):
                r4 = call(lambda: h.update(M[2 * B:], bitlen=8, padding=True))      # total-relative bit length below what was fed: refused
            return h.update(M[2 * B:], padding=True), c, (is_exc(r1), is_exc(r3))
        got = call(run_)
        det = dict(h=name, lenM=len(M))
        if is_exc(got):
            ctx.eq('refused-piece:piecewise==reference', got, external(name, M), **det)
        else:
            ctx.eq('refused-piece:piecewise==reference', got[0], external(name, M), refused=got[2], **det)
            ctx.eq('bitcnt-after-piece', [got[1]], [8 * B], after_refused_piece=True, **det)
    elif k == 'no-initstate':
        # a freshly constructed MD/SHA object is ready for update() (the constructor initialises the state)
        name = case['h']
        B, w = info(name)
        ctx.cls((name, 'no-initstate', case['j'] % 3))
        M = rng.randbytes(rng.choice([0, 1, B, 2 * B + 3]))
        cut = (len(M) // B) * B if case['j'] % 2 else 0
        def run_():
            h = make(name)
            if cut: h.update(M[:cut])
            return h.update(M[cut:], padding=True)
        ctx.eq('fresh-object-update==reference', call(run_), external(name, M), h=name, lenM=len(M), cut=cut)
    elif k == 'nil-3pieces':
        from crysp.nilsimsa import Nilsimsa
        n = case['n']
        M = rng.randbytes(n)
        ctx.cls(('nilsimsa-3pieces', n))
        model = simhash.nilsimsa(M)
        cnt = 0
        for c1 in range(0, n + 1):
            for c2 in range(c1, n + 1):
                got = call(lambda: Nilsimsa().update(M[:c1]).update(M[c1:c2]).update(M[c2:]).digest())
                ctx.eq('nilsimsa:cut==model', got, model, n=n, cuts=(c1, c2), M=M); cnt += 1
        ctx.exhaustive['nilsimsa: every pair of byte cuts (three pieces) of a message of %d bytes' % n] += cnt
    elif k == 'nil-reuse':
        # digest() ends a stream: the same object then takes a new message piecewise (after digest(), after a one-shot call)
        from crysp.nilsimsa import Nilsimsa
        ctx.cls(('nilsimsa-reuse', case['j'] % 4))
        h = Nilsimsa([None, 17][case['j'] % 2])
        t = 53 if case['j'] % 2 == 0 else 17
        hist = []
        for step in range(4):
            M = rng.randbytes(rng.choice([0, 3, 10, 80])); c = rng.randrange(0, len(M) + 1)
            if rng.random() < .3:
                got = call(lambda: h(M)); hist.append('h(%d bytes)' % len(M))
            else:
                got = call(lambda: h.update(M[:c]).update(M[c:]).digest()); hist.append('update(%d).update(%d).digest()' % (c, len(M) - c))
            ctx.eq('nilsimsa:reuse==model', got, simhash.nilsimsa(M, t), history=list(hist), M=M)
    elif k == 'nil-allcuts':
        from crysp.nilsimsa import Nilsimsa
        n, t = case['n'], case['target']
        M = rng.randbytes(n)
        ctx.cls(('nilsimsa-allcuts', n, t))
        one = call(lambda: Nilsimsa(t)(M))
        model = simhash.nilsimsa(M, t if t is not None else 53)
        ctx.eq('nilsimsa:oneshot==model', one, model, n=n, target=t, M=M)
        for c in range(0, n + 1):
            got = call(lambda: Nilsimsa(t).update(M[:c]).update(M[c:]).digest())
            ctx.eq('nilsimsa:cut==oneshot', got, one, n=n, cut=c, M=M)
            ctx.eq('nilsimsa:cut==model', got, model, n=n, cut=c)
        ctx.exhaustive['nilsimsa: every byte cut of a message of %d bytes' % n] += n + 1
    elif k == 'nil-multi':
        from crysp.nilsimsa import Nilsimsa
        n = case['n']
        M = rng.randbytes(n)
        cuts = sorted(rng.randrange(0, n + 1) for _ in range(case['ncuts']))
        ctx.cls(('nilsimsa-multi', n, case['ncuts']))
        pts = [0] + cuts + [n]
        def run_():
            h = Nilsimsa()
            for i in range(len(pts) - 1):
                h.update(M[pts[i]:pts[i + 1]])
            return h.digest()
        got = call(run_)
        ctx.eq('nilsimsa:cut==oneshot', got, call(lambda: Nilsimsa()(M)), n=n, cuts=cuts)
        ctx.eq('nilsimsa:cut==model', got, simhash.nilsimsa(M), n=n, cuts=cuts)

def classify(case, fail):
    # open finding: BLAKE2 streamed with block-aligned data followed by an EMPTY final piece.  The last data block has
    # already been compressed without the finalization flag when the empty final piece arrives; the API cannot repair that.
    if case.get('k') == 'cuts' and case['h'] in ('blake2b', 'blake2s') and fail['monitor'] in ('piecewise==oneshot', 'piecewise==reference'):
        cuts, tail = case['cuts'], case['tail']
        if tail == 0 and cuts and max(cuts) == 4 and 'EXC' not in str(fail.get('got')):
            return 'blake2-empty-final-piece'
    return None
