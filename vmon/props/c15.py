"""C15  CRC-32 equals the standard; CRC forging helpers hit any requested target."""
import zlib, random
from vmon.core import call, is_exc, pattern, PATTERNS

ID = 'C15'
LEVEL = 'exploration'
RULE = ('class = (function, |data| class, position class, target class, polynomial width); data filled with '
        'boundary-biased patterns; oracle zlib.crc32 and bit-by-bit reflected polynomial division; '
        'every position enumerated for |data| <= 24 (exhaustive sub-domain)')
ASSUMPTIONS = ['zlib.crc32 is the ISO-HDLC CRC-32', 'bitwise division model written from the definition of a reflected CRC']
ANCHORS = [('crc.py', 'crc_table'), ('crc.py', 'crc_back_table'), ('crc.py', 'crc'), ('crc.py', 'crc_back_pos'),
           ('crc.py', 'crc32_fix'), ('crc.py', 'crc32_fix_pos'), ('crc.py', 'crc32')]
REQUIRED = ['table-unchanged', 'crc32==zlib', 'crc-generic==bitwise', 'fix:crc==target', 'fixpos:crc==target', 'back==forward-state']
NSHARDS = 14
SAN = {'quick': (2, 6), 'thorough': (2, 4)}

def bitwise_crc(P, width, data, init, final):
    r = init & ((1 << width) - 1)
    for b in data:
        r ^= b
        for _ in range(8):
            r = (r >> 1) ^ P if r & 1 else r >> 1
    return r ^ final

def selftest():
    assert bitwise_crc(0xEDB88320, 32, b'123456789', 0xffffffff, 0xffffffff) == 0xCBF43926 == zlib.crc32(b'123456789')
    assert bitwise_crc(0xA001, 16, b'123456789', 0, 0) == 0xBB3D          # CRC-16/ARC
    assert bitwise_crc(0x8408, 16, b'123456789', 0xffff, 0xffff) == 0x906E  # CRC-16/X-25
    assert bitwise_crc(0x8C, 8, b'123456789', 0, 0) == 0xA1               # CRC-8/MAXIM
    return 'bitwise CRC model reproduces CRC-32, CRC-16/ARC, CRC-16/X-25, CRC-8/MAXIM check values'

LENS_Q = [0, 1, 2, 3, 4, 5, 7, 8, 15, 16, 17, 31, 32, 33, 48, 63, 64, 65, 100]
TARGETS = [0, 1, 0x80000000, 0xffffffff, 0x7fffffff, 0xdeadbeef, 'r', 'r', 'str']

def cases(tier, rng):
    reps = 4 if tier == 'quick' else 40
    for rep in range(reps):
        for n in LENS_Q + ([128, 255, 256, 1000] if tier == 'thorough' else []):
            for pat in PATTERNS:
                yield {'k': 'crc32', 'n': n, 'pat': pat}
        if rep == 0:
            for n in (4095, 4096, 4099, 65539):          # long inputs
                yield {'k': 'crc32', 'n': n, 'pat': 'rand'}
        # generic polynomial CRC, all widths 8..64
        for width in range(8, 65):
            for initc in ('zero', 'ones', 'rand'):
                for finalc in ('zero', 'ones', 'rand'):
                    yield {'k': 'generic', 'width': width, 'init': initc, 'final': finalc,
                           'n': [0, 1, 5, 16, 33][(width + rep) % 5], 'pat': PATTERNS[(width + rep) % len(PATTERNS)]}
        for width in (8, 8, 9, 12, 16, 24, 32, 33, 64):
            for fin in ('ones', 'rand', 'zero'):
                yield {'k': 'table-reuse', 'width': width, 'final': fin}
        # fixing helpers
        for n in [4, 5, 7, 8, 9, 16, 17, 32, 33, 64] + ([100, 257] if tier == 'thorough' else []):
            for t in TARGETS:
                for pat in ('rand', 'zero', 'ones'):
                    yield {'k': 'fix', 'n': n, 'target': t, 'pat': pat}
                    for posc in ('0', '1', 'mid', 'end-1', 'end') if t != 'str' else ():
                        # (a textual target is an extra of crc32_fix only; crc32_fix_pos takes an int)
                        yield {'k': 'fixpos', 'n': n, 'target': t, 'pat': pat, 'posc': posc}
        # every position for small data: exhaustive in the position
        for n in range(4, 25 if tier == 'thorough' else 17):
            yield {'k': 'fixpos-allpos', 'n': n, 'target': 'r', 'pat': 'rand'}
            yield {'k': 'fixpos-allpos', 'n': n, 'target': 'r', 'pat': 'ones'}
            yield {'k': 'fixpos-allpos', 'n': n, 'target': 0xffffffff, 'pat': 'zero'}
            yield {'k': 'back-allpos', 'n': n, 'pat': 'rand'}
        for width in (8, 16, 24, 32, 40, 48, 64, 12, 13, 31, 33, 63):
            for n in (1, 2, 9, 20):
                yield {'k': 'back-generic', 'width': width, 'n': n}
        if rep == 0:
            # the CRC-32 polynomial value in wider registers (a table that compares equal to the built-in one is not the built-in one)
            for width in (33, 40, 48, 64):
                for n in (0, 5, 33):
                    yield {'k': 'generic', 'width': width, 'init': 'ones', 'final': 'rand', 'n': n, 'pat': 'rand', 'P': 0xEDB88320}
            # long rewinds (more than 4096 and more than 65536 bytes back)
            for n, pos in ((5000, 3), (9000, 100), (70000, 1)):
                yield {'k': 'back-long', 'n': n, 'pos': pos}

def _val(rng, c, width):
    m = (1 << width) - 1
    return {'zero': 0, 'ones': m}.get(c, None) if c in ('zero', 'ones') else rng.getrandbits(width)

def _target(rng, t):
    if t == 'r':
        return rng.getrandbits(32)
    if t == 'str':
        return '0x%08x' % rng.getrandbits(32)
    return t

def run(case, ctx, rng):
    import crysp.crc as C
    from crysp.bits import Bits
    k = case['k']
    if k == 'crc32':
        d = pattern(rng, case['n'], case['pat'])
        ctx.cls(('crc32', case['n'] if case['n'] <= 65 or case['n'] >= 4000 else 66, case['pat']))
        ctx.eq('crc32==zlib', call(C.crc32, d), zlib.crc32(d), data=d)
    elif k == 'generic':
        w = case['width']
        # any reflected polynomial of the width: top coefficient set (the usual case), clear, a small value, a single bit
        pc = ['top-set', 'top-clear', 'top-set', 'small', 'top-clear', 'one-bit'][(w + case['n'] + len(case['init'])) % 6]
        P = {'top-set': rng.getrandbits(w) | (1 << (w - 1)), 'top-clear': rng.getrandbits(w - 1) | 1, 'small': rng.randrange(1, 256), 'one-bit': 1 << rng.randrange(w)}[pc]
        if case.get('P') is not None:
            P = case['P']; pc = 'crc32-polynomial-in-a-wider-register'
        init, final = _val(rng, case['init'], w), _val(rng, case['final'], w)
        d = pattern(rng, case['n'], case['pat'])
        ctx.cls(('generic', w, case['init'], case['final'], pc))
        got = call(lambda: C.crc(d, C.crc_table(Bits(P, w)), init, final))
        ctx.eq('crc-generic==bitwise', got, bitwise_crc(P, w, d, init, final), P=P, width=w, init=init, final=final, data=d)
        # a table the caller assembled itself (a temporary list of its own Bits), for this and for another polynomial right after
        P2 = P ^ (1 << (w // 2)) | (1 << (w - 1))
        for Px in (P, P2, P):
            gt = call(lambda: C.crc(d, [Bits(int(e), w) for e in C.crc_table(Bits(Px, w))], init, final))
            ctx.eq('crc-generic==bitwise', gt, bitwise_crc(Px, w, d, init, final), P=Px, width=w, init=init, final=final, data=d, table='assembled by the caller (temporary)')
    elif k == 'table-reuse':
        w = case['width']
        P = rng.getrandbits(w) | (1 << (w - 1)) if case['final'] != 'rand' else rng.getrandbits(w - 2) | 1
        PB = Bits(P, w)
        T = call(C.crc_table, PB)
        ctx.cls(('table-reuse', w, case['final']))
        if is_exc(T):
            ctx.eq('crc-generic==bitwise', T, 'a table', P=P, width=w); return
        snap = [(int(e.ival), e.size) for e in T]
        for i in range(8):
            init = rng.choice([0, rng.getrandbits(w), rng.getrandbits(8)]); final = _val(rng, case['final'], w)
            d = rng.randbytes(rng.choice([1, 1, 2, 5, 40]))
            ctx.eq('crc-generic==bitwise', call(C.crc, d, T, init, final), bitwise_crc(P, w, d, init, final), P=P, width=w, init=init, final=final, data=d, call_no=i, table='reused')
        ctx.check('table-unchanged', [(int(e.ival), e.size) for e in T] == snap and (PB.ival, PB.size) == (P, w), 'table or polynomial modified by crc()', 'unchanged', P=P, width=w)
        # the polynomial object belongs to the caller: refilled for a second table, then scrubbed; both tables stay what they were
        P2 = rng.getrandbits(w) | (1 << (w - 1))
        PB.ival = P2
        T2 = call(C.crc_table, PB)
        PB.ival = 0
        for d in (bytes([0x80]), bytes(range(0x7c, 0x84)), rng.randbytes(40), bytes([0x80, 0x01, 0x80])):
            init = rng.getrandbits(w); final = _val(rng, case['final'], w)
            ctx.eq('crc-generic==bitwise', call(C.crc, d, T, init, final), bitwise_crc(P, w, d, init, final), P=P, width=w, init=init, final=final, data=d, table='built before the caller refilled the polynomial object')
            if not is_exc(T2):
                ctx.eq('crc-generic==bitwise', call(C.crc, d, T2, init, final), bitwise_crc(P2, w, d, init, final), P=P2, width=w, init=init, final=final, data=d, table='built from the refilled polynomial object')
        ctx.check('table-unchanged', [(int(e.ival), e.size) for e in T] == snap, 'table changed when the caller changed its polynomial object', 'unchanged', P=P, width=w)
    elif k == 'fix':
        d = pattern(rng, case['n'], case['pat'])
        t = _target(rng, case['target'])
        ti = int(t, 0) if isinstance(t, str) else t
        ctx.cls(('fix', case['n'], str(case['target']), case['pat']))
        r = call(C.crc32_fix, d, t)
        if ctx.check('fix:returns-bytes', isinstance(r, bytes), r, 'bytes', data=d, target=t):
            ctx.eq('fix:length', len(r), len(d), data=d)
            ctx.eq('fix:outside-window-unchanged', r[:-4], d[:-4], data=d)
            ctx.eq('fix:crc==target', zlib.crc32(r), ti, data=d, result=r)
    elif k in ('fixpos', 'fixpos-allpos'):
        n = case['n']
        d = pattern(rng, n, case['pat'])
        t = _target(rng, case['target'])
        if k == 'fixpos':
            poss = [{'0': 0, '1': min(1, n - 4), 'mid': (n - 4) // 2, 'end-1': max(0, n - 5), 'end': n - 4}[case['posc']]]
            ctx.cls(('fixpos', n, case['posc'], str(case['target'])))
        else:
            poss = range(0, n - 3)
            ctx.cls(('fixpos-all', n))
            ctx.exhaustive['crc32_fix_pos: every position of |data|=%d' % n] += len(poss)
        for pos in poss:
            r = call(C.crc32_fix_pos, d, pos, t)
            if ctx.check('fixpos:returns-bytes', isinstance(r, bytes), r, 'bytes', data=d, pos=pos, target=t):
                ctx.eq('fixpos:length', len(r), len(d), data=d, pos=pos)
                ctx.eq('fixpos:outside-window-unchanged', r[:pos] + r[pos + 4:], d[:pos] + d[pos + 4:], data=d, pos=pos)
                ctx.eq('fixpos:crc==target', zlib.crc32(r), t, data=d, pos=pos, result=r)
    elif k == 'back-allpos':
        n = case['n']
        d = pattern(rng, n, case['pat'])
        c = zlib.crc32(d)
        ctx.cls(('back', n))
        for pos in range(n):
            want = bitwise_crc(0xEDB88320, 32, d[:pos], 0xffffffff, 0)
            ctx.eq('back==forward-state', call(C.crc32_back_pos, d, pos, c), want, data=d, pos=pos)
    elif k == 'back-long':
        n, pos = case['n'], case['pos']
        d = rng.randbytes(n); c = zlib.crc32(d)
        ctx.cls(('back-long', n, pos))
        ctx.eq('back==forward-state', call(C.crc32_back_pos, d, pos, c), bitwise_crc(0xEDB88320, 32, d[:pos], 0xffffffff, 0), n=n, pos=pos)
        t = rng.getrandbits(32)
        r = call(C.crc32_fix_pos, d, pos, t)
        ctx.eq('fixpos:crc==target', zlib.crc32(r) if isinstance(r, bytes) else r, t, n=n, pos=pos, target=t)
        if isinstance(r, bytes):
            ctx.eq('fixpos:outside-window-unchanged', (len(r), r[:pos], r[pos + 4:]), (n, d[:pos], d[pos + 4:]), n=n, pos=pos)
    elif k == 'back-generic':
        w, n = case['width'], case['n']
        P = rng.getrandbits(w) | (1 << (w - 1))
        init, final = rng.getrandbits(w), rng.getrandbits(w)
        d = rng.randbytes(n)
        ctx.cls(('back-generic', w, n))
        PB = Bits(P, w)
        fw = call(lambda: C.crc(d, C.crc_table(PB), init, final))
        ctx.eq('crc-generic==bitwise', fw, bitwise_crc(P, w, d, init, final), P=P, width=w, data=d)
        if not is_exc(fw):
            for pos in range(n):
                got = call(lambda: C.crc_back_pos(d, pos, C.crc_back_table(PB), final, fw))
                ctx.eq('back-generic==forward-state', got, bitwise_crc(P, w, d[:pos], init, 0), P=P, width=w, data=d, pos=pos)

def classify(case, fail):
    return None
