"""C05  ECB/CBC/CTR/CTS modes follow SP 800-38A and decrypt what they encrypt."""
from vmon.core import call, is_exc, pattern, bits_msb
from vmon.refs import padspec
from vmon.props import c02

ID = 'C05'
RULE = ('class = (mode, cipher, padding, |M| mod blocksize, floor(|M|/blocksize) in 0..3, IV/counter class); modes ECB/CBC/CTR/CTS_ECB/'
        'CTS_CBC over AES-128/192/256, DES, TDEA, Serpent, Threefish-256/512/1024; paddings pkcs7/X923/bitpadding/Nullpadding/nopadding; '
        'counters zero, random, 2^n-1, 2^n-2 (wrap inside the run); oracle = SP 800-38A written over the reference block ciphers and the '
        'bit-list padding specifications, libcrypto CBC/CTR as cross-check; decryption by a second, equally configured object')
ASSUMPTIONS = ['reference block ciphers of C02 (self-tested)', 'padding specifications of C09', 'libcrypto AES/DES CBC/CTR/ECB as cross-check at start',
               'CTS: only length and round trip are judged (the property fixes no stealing variant)']
ANCHORS = [('mode.py', 'ECB.enc'), ('mode.py', 'ECB.dec'), ('mode.py', 'CBC.enc'), ('mode.py', 'CBC.dec'), ('mode.py', 'CTR.enc'), ('mode.py', 'CTR.dec'),
           ('mode.py', 'DefaultCounter.reset'), ('mode.py', 'DefaultCounter.__call__'), ('mode.py', 'CTS_ECB.enc'), ('mode.py', 'CTS_ECB.dec'),
           ('mode.py', 'CTS_CBC.enc'), ('mode.py', 'CTS_CBC.dec'), ('mode.py', 'Mode.xorstr')]
REQUIRED = ['siblings:mode==spec', 'ecb:enc==spec', 'cbc:enc==spec', 'ctr:enc==spec', 'ecb:dec(enc)==M', 'cbc:dec(enc)==M', 'ctr:dec(enc)==M', 'ctr:length',
            'cts-ecb:length', 'cts-ecb:dec(enc)==M', 'cts-cbc:length', 'cts-cbc:dec(enc)==M']
NSHARDS = 14
SAN = {'quick': (2, 50), 'thorough': (2, 50)}

CIPH = ['aes128', 'aes192', 'aes256', 'des', 'tdea-s24', 'tdea-s16', 'tdea2', 'tdea3', 'serpent', 'tf256', 'tf512', 'tf1024']
PADS = ['pkcs7', 'x923', 'bit', 'zero', 'none']

def selftest():
    msgs = [c02.selftest(), padspec.selftest()]
    try:
        from vmon.refs import ossl
        import random
        r = random.Random(9)
        for _ in range(10):
            k = r.randbytes(16); iv = r.randbytes(16); m = r.randbytes(48)
            E = lambda b: c02.ref('aes128', k, None, b, False)
            assert ossl.cipher('AES-128-CBC', k, m, iv) == spec_cbc(E, iv, m, 16)[16:]
            m2 = r.randbytes(37)
            assert ossl.cipher('AES-128-CTR', k, m2, iv) == spec_ctr(E, iv[:8], int.from_bytes(iv[8:], 'big'), m2, 16)
            k = r.randbytes(8); iv = r.randbytes(8); m = r.randbytes(24)
            Ed = lambda b: c02.ref('des', k, None, b, False)
            assert ossl.cipher('DES-CBC', k, m, iv) == spec_cbc(Ed, iv, m, 8)[8:]
        msgs.append('mode specifications agree with libcrypto AES-CBC/AES-CTR/DES-CBC')
    except (OSError, ValueError, AttributeError) as e:
        msgs.append('libcrypto cross-check unavailable (%s)' % type(e).__name__)
    return '; '.join(msgs)

def xor(a, b): return bytes(x ^ y for x, y in zip(a, b))
def spec_ecb(E, P, n): return b''.join(E(P[i:i + n]) for i in range(0, len(P), n))
def spec_cbc(E, iv, P, n):
    out = [iv]
    for i in range(0, len(P), n):
        out.append(E(xor(P[i:i + n], out[-1])))
    return b''.join(out)
def spec_ctr(E, nonce, count, M, n):
    h = n - len(nonce)
    out = []
    for j, i in enumerate(range(0, len(M), n)):
        T = nonce + ((count + j) % (1 << (8 * h))).to_bytes(h, 'big')
        out.append(xor(M[i:i + n], E(T)))
    return b''.join(out)

def residues(n):
    if n <= 16: return list(range(n))
    return [0, 1, 2, n // 2, n - 2, n - 1]

def cases(tier, rng):
    reps = 1 if tier == 'quick' else 6
    for rep in range(reps):
        for c in CIPH:
            n = c02.blocklen(c)
            for mode in ('ecb', 'cbc'):
                for pad in PADS:
                    for nb in range(0, 4):
                        for r in residues(n):
                            if pad == 'none' and (r != 0 or nb == 0):
                                continue
                            if tier == 'quick' and nb == 3 and r not in (0, 1, n - 1):
                                continue
                            yield {'k': mode, 'c': c, 'pad': pad, 'nb': nb, 'r': r, 'ivc': ['rand', 'zero', 'ones'][(nb + r) % 3]}
            for cc in ('zero', 'rand', 'max', 'max-1', 'max-2', 'hi'):
                for how in ('iv', 'setup', 'late-setup'):
                    for nb in range(0, 4):
                        for r in residues(n):
                            if tier == 'quick' and (r not in (0, 1, n - 1) and (cc, how) != ('rand', 'iv')):
                                continue
                            yield {'k': 'ctr', 'c': c, 'cc': cc, 'how': how, 'nb': nb, 'r': r}
            if rep == 0 and c in ('aes128', 'des', 'tf512'):
                nbig = 4096 // n
                for mode in ('ecb', 'cbc'):
                    yield {'k': mode, 'c': c, 'pad': 'pkcs7', 'nb': nbig, 'r': 3, 'ivc': 'rand'}          # long messages
                yield {'k': 'ctr', 'c': c, 'cc': 'max-2', 'how': 'iv', 'nb': nbig, 'r': 3}
            for j in range(2 if tier == 'quick' else 8):
                yield {'k': 'siblings', 'c': c, 'j': j, 'nb': 0, 'r': 0}
            if c in ('aes128', 'tf512'):
                for j in range(3 if tier == 'quick' else 12):
                    yield {'k': 'ctr-same-iv', 'c': c, 'j': j, 'nb': 0, 'r': 0}
            for mode in ('cts-ecb', 'cts-cbc'):
                for nb in range(1, 4):
                    for r in residues(n):
                        yield {'k': mode, 'c': c, 'nb': nb, 'r': r}

def padclass(name):
    import crysp.padding as P
    return {'pkcs7': P.pkcs7, 'x923': P.X923, 'bit': P.bitpadding, 'zero': P.Nullpadding, 'none': P.nopadding}[name]

def setup(case, rng):
    c = case['c']
    K, T, _ = c02.material({'c': c, 'kp': 'rand', 'tp': 'trand'}, rng)
    if c in ('tdea-s24', 'tdea3') and (case.get('nb', 0) + case.get('r', 0)) % 3:
        # bundles with equal sub-keys (K1==K2!=K3, K1!=K2==K3, K1==K3): degenerate but legal keying options
        eq = (case.get('nb', 0) + case.get('r', 0)) % 3 + 2 * (case.get('r', 0) % 2)
        K = {1: K[:8] + K[:8] + K[16:], 2: K[:8] + K[8:16] + K[8:16], 3: K[:8] + K[8:16] + K[:8], 4: K[:8] * 3}[eq]
    n = c02.blocklen(c)
    E = lambda b: c02.ref(c, K, T, b, False)
    mk = lambda: c02.build(c, K, T)
    return K, T, n, E, mk

def run(case, ctx, rng):
    import crysp.mode as MD
    k = case['k']
    K, T, n, E, mk = setup(case, rng)
    M = pattern(rng, case['nb'] * n + case['r'], ['rand', 'rand', 'zero', 'asc', 'rand', 'ones', 'x80'][(case['nb'] * 5 + case['r']) % 7])      # also messages made of equal blocks
    c = case['c']
    det = dict(mode=k, cipher=c, K=K, T=T, M=M)
    if k in ('ecb', 'cbc'):
        pad = case['pad']
        ctx.cls((k, c, pad, case['r'], case['nb'], case['ivc']))
        iv = pattern(rng, n, case['ivc'])
        Ppad = padspec.spec(pad, 8 * n, bits_msb(M, 8 * len(M)))[0]
        if k == 'ecb':
            new = lambda: MD.ECB(mk(), padclass(pad)); want = spec_ecb(E, Ppad, n)
        else:
            new = lambda: MD.CBC(mk(), iv, padclass(pad)); want = spec_cbc(E, iv, Ppad, n)
        det.update(pad=pad, iv=iv)
        obj = call(new)
        C = call(lambda: obj.enc(M))
        ctx.eq(k + ':enc==spec', C, want, **det)
        if not is_exc(C) and pad != 'zero':
            ctx.eq(k + ':dec(enc)==M', call(lambda: new().dec(C)), M, **det)
        if not is_exc(C):
            # the same object decrypts what it encrypted (zero padding is removable by the same object only)
            ctx.eq(k + ':dec(enc)==M', call(lambda: obj.dec(C)), M, same_object=True, **det)
            ctx.eq(k + ':enc==spec', call(lambda: obj.enc(M)), want, second_call=True, **det)
            # one object, unrelated messages: after encrypting M it decrypts the ciphertext of a message of another length
            # (Nullpadding is removable only by the object that added it, so it is left out)
            if pad != 'zero':
                M2 = rng.randbytes(n * rng.choice([1, 2])) if pad == 'none' else rng.randbytes(rng.choice([0, 1, n - 1, n, n + 1, 2 * n + 3]))
                P2 = padspec.spec(pad, 8 * n, bits_msb(M2, 8 * len(M2)))[0]
                C2 = spec_ecb(E, P2, n) if k == 'ecb' else spec_cbc(E, iv, P2, n)
                ctx.eq(k + ':dec(enc)==M', call(lambda: obj.dec(C2)), M2, cross_use='enc(M), then dec of another message', M2=M2, **det)
                ctx.eq(k + ':enc==spec', call(lambda: obj.enc(M2)), C2, cross_use='third message on the same object', M2=M2, **det)
            # caller-owned mutable buffers: the library neither changes them nor is confused by getting a bytearray
            ivb = bytearray(iv); Mb = bytearray(M)
            ob = call(lambda: MD.ECB(mk(), padclass(pad)) if k == 'ecb' else MD.CBC(mk(), ivb, padclass(pad)))
            if not is_exc(ob):
                ctx.eq(k + ':enc==spec', call(lambda: bytes(ob.enc(Mb))), want, buffers='bytearray IV and message', **det)
                ctx.eq(k + ':enc==spec', call(lambda: bytes(ob.enc(Mb))), want, buffers='bytearray IV and message', second_call=True, **det)
                ctx.eq(k + ':enc==spec', (bytes(ivb), bytes(Mb)), (iv, M), buffers='caller buffers left unchanged', **det)
    elif k == 'ctr':
        cc, how = case['cc'], case['how']
        ctx.cls((k, c, cc, how, case['r'], case['nb']))
        h = n // 2
        count = {'zero': 0, 'max': (1 << (8 * h)) - 1, 'max-1': (1 << (8 * h)) - 2, 'max-2': (1 << (8 * h)) - 3, 'hi': 1 << (8 * h - 1)}.get(cc)
        if count is None: count = rng.getrandbits(8 * h)
        nonce = rng.randbytes(n - h)
        cb = count.to_bytes(h, 'big')
        def new():
            if how == 'iv': return MD.CTR(mk(), nonce + cb)
            if how == 'setup': return MD.CTR(mk(), MD.DefaultCounter(n).setup(nonce, cb))
            o = MD.CTR(mk()); o.counter.setup(nonce, cb); return o
        want = spec_ctr(E, nonce, count, M, n)
        det.update(nonce=nonce, count=count, how=how)
        obj = call(new)
        C = call(lambda: obj.enc(M))
        ctx.eq('ctr:enc==spec', C, want, **det)
        if not is_exc(C):
            ctx.eq('ctr:length', len(C), len(M), **det)
            ctx.eq('ctr:dec(enc)==M', call(lambda: new().dec(C)), M, **det)
            ctx.eq('ctr:dec(enc)==M', call(lambda: obj.dec(C)), M, same_object=True, **det)
            ctx.eq('ctr:enc==spec', call(lambda: obj.enc(M)), want, second_call=True, **det)
            if case['r'] in (0, 1):
                from vmon.core import mutable_arg
                ob = new()
                mutable_arg(ctx, 'ctr:enc==spec', (lambda buf: bytes(ob.enc(buf))), M, want, one_object=True, **det)
            # the counter is re-configured on the live object: the next message starts from the new counter block
            n2 = rng.randbytes(n - h); c2 = rng.getrandbits(8 * h)
            if hasattr(obj.counter, 'setup'):
                call(obj.counter.setup, n2, c2.to_bytes(h, 'big'))
                ctx.eq('ctr:enc==spec', call(lambda: obj.enc(M)), spec_ctr(E, n2, c2, M, n), after_counter_setup=True, **det)
    elif k == 'siblings':
        from vmon.core import siblings
        import crysp.padding as PD
        ctx.cls((k, c, case['j'] % 2))
        shared = mk()                         # one cipher object under several mode objects
        iv = rng.randbytes(n); iv2 = rng.randbytes(n)
        h = n // 2
        def msgs():
            return rng.randbytes(rng.choice([0, 1, n - 1, n, n + 1, 2 * n + 3]))
        specs = []
        M1, M2 = msgs(), msgs()
        P = lambda M, pad='pkcs7': padspec.spec(pad, 8 * n, bits_msb(M, 8 * len(M)))[0]
        specs.append(('ECB(shared)', (lambda: MD.ECB(shared)), [('enc(M1)', (lambda o: o.enc(M1)), spec_ecb(E, P(M1), n)), ('enc(M2)', (lambda o: o.enc(M2)), spec_ecb(E, P(M2), n)),
                                                            ('dec(enc(M1))', (lambda o: o.dec(o.enc(M1))), M1)]))
        M3 = msgs()
        specs.append(('CBC(shared,iv)', (lambda: MD.CBC(shared, iv)), [('enc(M3)', (lambda o: o.enc(M3)), spec_cbc(E, iv, P(M3), n)), ('dec(enc(M3))', (lambda o: o.dec(o.enc(M3))), M3)]))
        M4 = msgs()
        specs.append(('CBC(own,iv2,X923)', (lambda: MD.CBC(mk(), iv2, PD.X923)), [('enc(M4)', (lambda o: o.enc(M4)), spec_cbc(E, iv2, P(M4, 'x923'), n))]))
        M5 = msgs(); cnt = rng.getrandbits(8 * h)
        specs.append(('CTR(shared)', (lambda: MD.CTR(shared, iv[:n - h] + cnt.to_bytes(h, 'big'))), [('enc(M5)', (lambda o: o.enc(M5)), spec_ctr(E, iv[:n - h], cnt, M5, n)),
                                                                                                    ('dec(enc(M5))', (lambda o: o.dec(o.enc(M5))), M5)]))
        M6 = msgs(); cnt2 = (1 << (8 * h)) - 1
        specs.append(('CTR(own,wrap)', (lambda: MD.CTR(mk(), iv2[:n - h] + cnt2.to_bytes(h, 'big'))), [('enc(M6)', (lambda o: o.enc(M6)), spec_ctr(E, iv2[:n - h], cnt2, M6, n))]))
        siblings(ctx, rng, 'siblings:mode==spec', specs, late=specs.pop(), cipher=c)
    elif k == 'ctr-same-iv':
        # several CTR objects (different ciphers / keys, same block size) started from the same counter block, alive together
        from vmon.core import siblings
        ctx.cls((k, c, case['j'] % 3))
        fam = ['aes128', 'aes256', 'serpent', 'aes192'] if n == 16 else ['tf512', 'tf512', 'tf512']
        iv = [bytes(n), rng.randbytes(n), b'\xff' * n][case['j'] % 3]
        h = n // 2
        specs = []
        for t, cc in enumerate(fam):
            K2, T2, _ = c02.material({'c': cc, 'kp': 'rand', 'tp': 'trand'}, rng)
            E2 = (lambda b, cc=cc, K2=K2, T2=T2: c02.ref(cc, K2, T2, b, False))
            Mx = rng.randbytes(rng.choice([1, n, 2 * n + 5]))
            want = spec_ctr(E2, iv[:n - h], int.from_bytes(iv[n - h:], 'big'), Mx, n)
            specs.append(('CTR(%s)#%d' % (cc, t), (lambda cc=cc, K2=K2, T2=T2: MD.CTR(c02.build(cc, K2, T2), iv)),
                          [('enc(M)', (lambda o, Mx=Mx: o.enc(Mx)), want), ('dec(C)', (lambda o, C=want: o.dec(C)), Mx)]))
        siblings(ctx, rng, 'siblings:mode==spec', specs, late=specs.pop(), iv=iv)
    elif k == 'cts-ecb':
        ctx.cls((k, c, case['r'], case['nb']))
        new = lambda: MD.CTS_ECB(mk())
        C = call(lambda: new().enc(M))
        if ctx.check('cts-ecb:length', not is_exc(C) and len(C) == len(M), C if is_exc(C) else len(C), len(M), **det):
            ctx.eq('cts-ecb:dec(enc)==M', call(lambda: new().dec(C)), M, **det)
            o = new(); first = call(o.enc, M)
            ctx.eq('cts-ecb:second-call-same', call(o.enc, M), first, **det)
    elif k == 'cts-cbc':
        ctx.cls((k, c, case['r'], case['nb']))
        iv = rng.randbytes(n)
        new = lambda: MD.CTS_CBC(mk(), iv)
        det.update(iv=iv)
        C = call(lambda: new().enc(M))
        if ctx.check('cts-cbc:length', not is_exc(C) and len(C) == len(M) + n and C[:n] == iv, C if is_exc(C) else (len(C), C[:n]), (len(M) + n, iv), **det):
            ctx.eq('cts-cbc:dec(enc)==M', call(lambda: new().dec(C)), M, **det)
            o = new(); first = call(o.enc, M)
            ctx.eq('cts-cbc:second-call-same', call(o.enc, M), first, **det)

def classify(case, fail):
    return None
