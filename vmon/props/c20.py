"""C20  Permutation and subset-sum helpers enumerate exactly and answer correctly."""
import itertools, collections
from vmon.core import call, is_exc, Exc

ID = 'C20'
RULE = ('class = (function, list length, repetition shape, k or p or target class); permutk/nextperm/combink compared with '
        'itertools on every list of the enumerated shapes; exactsum/dynprog compared with brute-force subset enumeration; '
        'each call repeated on the same arguments (history) and arguments checked unchanged')
ASSUMPTIONS = ['itertools.permutations/combinations', 'brute-force subset enumeration for n <= 12']
ANCHORS = [('perms.py', 'permutk'), ('perms.py', 'nextperm'), ('perms.py', 'combink'), ('knapsack.py', 'exactsum'), ('knapsack.py', 'dynprog')]
REQUIRED = ['permutk==itertools', 'nextperm==successor', 'combink==itertools', 'exactsum:answer', 'dynprog:answer']
NSHARDS = 14
SAN = {'quick': (0, 1), 'thorough': (0, 1)}
S3_EVERY = 1

def selftest():
    assert successor([1, 2, 3]) == [1, 3, 2] and successor([3, 2, 1]) == [1, 2, 3] and successor([2, 1, 1]) == [1, 1, 2]
    assert successor([1, 1, 2]) == [1, 2, 1] and successor([]) == [] and successor([5]) == [5]
    assert best_subsets([3, 5, 7])[8] == 2 and 4 not in best_subsets([3, 5, 7])
    return 'successor / subset-sum oracles ok'

def successor(l):
    ps = sorted(set(itertools.permutations(l)))
    if not ps:
        return []
    i = ps.index(tuple(l))
    return list(ps[(i + 1) % len(ps)])

def best_subsets(ws):
    """{reachable sum: minimum number of items}"""
    best = {0: 0}
    for w in ws:
        nb = dict(best)
        for s, c in best.items():
            if nb.get(s + w, 99) > c + 1:
                nb[s + w] = c + 1
        best = nb
    return best

def shapes(n):
    yield 'distinct', list(range(1, n + 1))
    if n >= 2:
        yield 'one-repeat', [1] + list(range(1, n))
        yield 'all-equal', [7] * n
        yield 'reversed', list(range(n, 0, -1))
    if n >= 4:
        yield 'two-repeats', [1, 1, 2, 2] + list(range(3, n - 1))

def cases(tier, rng):
    nmax = 7 if tier == 'quick' else 8
    for n in range(0, nmax + 1):
        for shape, l in shapes(n):
            for k in range(0, n + 1):
                yield {'k': 'permutk', 'l': l, 'depth': k, 'shape': shape}
            for p in range(1, n + 1):
                yield {'k': 'combink', 'l': l, 'p': p, 'shape': shape}
    # nextperm: every sequence over an n-letter alphabet
    for n in range(0, 6 if tier == 'quick' else 7):
        yield {'k': 'nextperm-all', 'n': n, 'alpha': max(1, n)}
    yield {'k': 'nextperm-all', 'n': 7, 'alpha': 3}
    if tier == 'thorough':
        yield {'k': 'nextperm-all', 'n': 8, 'alpha': 3}
        yield {'k': 'nextperm-all', 'n': 10, 'alpha': 2}
    # full cycles through nextperm
    for n in range(1, 7):
        for shape, l in shapes(n):
            yield {'k': 'nextperm-cycle', 'l': sorted(l), 'shape': shape}
    # subset sums
    nk = 600 if tier == 'quick' else 6000
    for j in range(nk):
        yield {'k': 'knap', 'n': 1 + j % 10, 'wmax': [3, 6, 12, 40][j % 4], 'dup': j % 3 == 0}

def run(case, ctx, rng):
    from crysp.utils import perms as P, knapsack as K
    k = case['k']
    if k == 'permutk':
        l = list(case['l']); d = case['depth']; orig = list(l)
        ctx.cls(('permutk', len(l), case['shape'], d))
        got = call(lambda: [tuple(x) for x in P.permutk(l, d)])
        want = [tuple(orig[:d]) + p for p in itertools.permutations(orig[d:])]
        if is_exc(got):
            ctx.eq('permutk==itertools', got, 'list of %d arrangements' % len(want), l=orig, depth=d)
        else:
            ctx.check('permutk==itertools', collections.Counter(got) == collections.Counter(want), sorted(got)[:30], sorted(want)[:30], l=orig, depth=d)
            ctx.eq('permutk:count', len(got), len(want), l=orig, depth=d)
        ctx.eq('permutk:list-restored', l, orig, depth=d)
        # abandoned generator (history): the list may be mid-rotation, but a fresh call on a fresh copy is unaffected
        l2 = list(orig); g = P.permutk(l2, d); call(next, g); g.close()
        l3 = list(orig)
        got3 = call(lambda: [tuple(x) for x in P.permutk(l3, d)])
        if not is_exc(got3) and not is_exc(got):
            ctx.eq('permutk:repeatable', got3, got, l=orig, depth=d)
    elif k == 'combink':
        l = list(case['l']); p = case['p']; orig = list(l)
        ctx.cls(('combink', len(l), case['shape'], p))
        got = call(lambda: [tuple(x) for x in P.combink(l, p, 0)])
        want = list(itertools.combinations(orig, p))
        ctx.eq('combink==itertools', got, want, l=orig, p=p)
        ctx.eq('combink:list-unchanged', l, orig)
        got2 = call(lambda: [tuple(x) for x in P.combink(l, p, 0)])
        ctx.eq('combink:repeatable', got2, want, l=orig, p=p)
        # generators are lazy: two requests made first, consumed one after the other; one request never started
        def lazy():
            g1 = P.combink(l, p, 0); g2 = P.combink(l, max(1, p - 1), 0); g3 = P.combink(l, p, 0)
            return [tuple(x) for x in g1], [tuple(x) for x in g2]
        ctx.eq('combink:lazy-generators', call(lazy), (want, list(itertools.combinations(orig, max(1, p - 1)))), l=orig, p=p)
        ctx.eq('combink:repeatable', call(lambda: [tuple(x) for x in P.combink(l, p, 0)]), want, l=orig, p=p, after='an abandoned generator')
        # a refused request (p = 0 or p > n, on a shorter, this, or a longer list) leaves nothing behind for the next legal one
        big = list(range(len(l) + 3))
        for bl, bp in (([], 1), (l[:1], 2), (l, 0), (l, len(l) + 1), (big, 0), (big, len(big) + 2)):
            for ll, pp in ((big, len(big)), (big, len(big) - 1), (l, p)):
                call(lambda: list(P.combink(bl, bp, 0)))
                ctx.eq('combink:repeatable', call(lambda: [tuple(x) for x in P.combink(ll, pp, 0)]), list(itertools.combinations(ll, pp)), l=ll, p=pp, after='a refused request combink(%r,%d)' % (bl, bp))
    elif k == 'nextperm-all':
        n, a = case['n'], case['alpha']
        ctx.cls(('nextperm-all', n, a))
        cnt = 0
        memo = {}
        for t in itertools.product(range(a), repeat=n):
            key = tuple(sorted(t))
            if key not in memo:
                ps = sorted(set(itertools.permutations(key)))
                memo[key] = {p: ps[(i + 1) % len(ps)] for i, p in enumerate(ps)}
            l = list(t)
            r = call(P.nextperm, l)
            cnt += 1
            want = list(memo[key][t])
            ok = (not is_exc(r)) and l == want and r is l
            ctx.check('nextperm==successor', ok, r if is_exc(r) else l, want, l=list(t))
        ctx.exhaustive['nextperm: all sequences of length %d over %d letters' % (n, a)] += cnt
    elif k == 'nextperm-cycle':
        l0 = list(case['l'])
        ctx.cls(('nextperm-cycle', len(l0), case['shape']))
        want = sorted(set(itertools.permutations(l0)))
        seen = [tuple(l0)]
        l = list(l0)
        for _ in range(len(want) + 1):
            r = call(P.nextperm, l)
            if is_exc(r):
                break
            seen.append(tuple(l))
        ctx.eq('nextperm:cycle-visits-all-once-then-wraps', seen, want + [want[0], want[1 % len(want)]], l=l0)
    elif k == 'knap':
        n = case['n']
        ws = [rng.randint(1, case['wmax']) for _ in range(n)]
        if case['dup'] and n >= 2:
            ws[-1] = ws[0]
        pk = ['int', 'str', 'mixed', 'dict', 'complex', 'same'][(n + case['wmax']) % 6]          # payloads are arbitrary objects; 'same': equal couples occur several times
        pay = {'int': lambda i: i, 'str': lambda i: 'item%d' % i, 'mixed': lambda i: i if i % 2 else 'item%d' % i, 'dict': lambda i: {'id': i}, 'complex': lambda i: complex(i, 1), 'same': lambda i: 'x'}[pk]
        items = [(pay(i), w) for i, w in enumerate(ws)]
        def sub_collection(r):
            # every returned couple is one of the items, no item used more often than it occurs
            if not isinstance(r, list): return False
            free = list(items)
            for x in r:
                for t, it in enumerate(free):
                    if it == x:
                        del free[t]; break
                else:
                    return False
            return True
        best = best_subsets(ws)
        tot = sum(ws)
        ctx.cls(('knap', n, case['wmax'], case['dup'], pk))
        for s in range(1, tot + 1):
            feasible = s in best
            for fn, name in ((K.exactsum, 'exactsum'), (K.dynprog, 'dynprog')):
                arg = list(items)
                r = call(fn, arg, s)
                ctx.eq(name + ':arguments-unchanged', arg, items, s=s)
                det = dict(items=items, s=s)
                if feasible:
                    ok = sub_collection(r) and sum(x[1] for x in r) == s
                    reuse = (isinstance(r, list) and all(x in items for x in r) and sum(x[1] for x in r) == s and not sub_collection(r))
                    ctx.check(name + ':answer', ok, r, 'a sub-collection of the items with weight sum %d' % s, reuse=reuse, **det)
                    if ok and name == 'dynprog':
                        ctx.eq('dynprog:minimal-cardinality', len(r), best[s], **det)
                else:
                    reuse = (isinstance(r, list) and all(x in items for x in r) and sum(x[1] for x in r) == s and not sub_collection(r))
                    ctx.check(name + ':answer', (r is None or r is False) and not is_exc(r), r, 'failure value (no sub-collection sums to %d)' % s, reuse=reuse, **det)
                r2 = call(fn, list(items), s)
                ctx.check(name + ':repeatable', (r2 == r) and not (is_exc(r2) != is_exc(r)), r2, r, **det)
        # one list object the caller keeps and changes between calls: every call answers for the list as it is at that moment
        live = list(items)
        for step in range(4):
            if not live: break
            wsl = [x[1] for x in live]; bl = best_subsets(wsl); s = rng.choice(sorted(bl)[1:] or [1])
            for fn, name in ((K.exactsum, 'exactsum'), (K.dynprog, 'dynprog')):
                r = call(fn, live, s)
                free = list(live); okl = isinstance(r, list)
                for x in (r if okl else []):
                    if x in free: free.remove(x)
                    else: okl = False
                reuse = isinstance(r, list) and all(x in live for x in r) and sum(x[1] for x in r) == s and not okl
                ctx.check(name + ':answer', okl and sum(x[1] for x in r) == s and (name != 'dynprog' or len(r) == bl[s]), r, 'a%s sub-collection of the current list with weight sum %d' % (' minimal' if name == 'dynprog' else '', s),
                          reuse=reuse, items=list(live), s=s, history='the caller changed the list between calls (step %d)' % step)
            op = rng.randrange(3)
            if op == 0: live.pop(rng.randrange(len(live)))
            elif op == 1: live[rng.randrange(len(live))] = (pay(100 + step), rng.randint(1, case['wmax']))
            else: live.append((pay(200 + step), rng.randint(1, case['wmax'])))

def classify(case, fail):
    # the only open finding: dynprog's coin-change recurrence may use one item several times.  The key
    # applies only to a witness that exhibits exactly that (all returned couples are items of the list,
    # their weights sum to the target, and at least one couple is repeated).
    if fail['monitor'] == 'dynprog:answer' and fail.get('detail', {}).get('reuse') is True:
        return 'dynprog-reuses-items'
    return None
