"""C03  Every block cipher is a permutation: dec inverts enc, and so do their parts."""
from vmon.core import call, is_exc, pattern
from vmon.props import c02

ID = 'C03'
RULE = ('class = (cipher, key form, key pattern, block pattern) for dec(enc(B))==B==enc(dec(B)) on the C02 case grid (no external oracle: '
        'the identity decides); component pairs enumerated completely: AES Sbox/Sbox_inv (256 values x 16 positions), ShiftRows, MixColumns '
        '(16x256 single-byte states + random), DES IP/IPinv and Serpent _IP/_FP (unit vectors, complements, random), Serpent _S/_Sinv '
        '(8 boxes x 16 values x 32 positions), _L/_Linv (128 unit vectors + random), rol/ror (widths 1..130, all amounts), Salsa/ChaCha index maps')
ASSUMPTIONS = ['identity oracle; correctness of enc itself is decided by C02']
ANCHORS = [('aes.py', 'AES.dec'), ('aes.py', 'AES.InvShiftRows'), ('aes.py', 'AES.InvMixColumns'), ('aes.py', 'Sbox_inv'), ('des.py', 'DES.dec'),
           ('des.py', 'TDEA.dec'), ('des.py', 'IP'), ('des.py', 'IPinv'), ('serpent.py', 'Serpent.dec'), ('serpent.py', '_Sinv'), ('serpent.py', '_Linv'),
           ('serpent.py', '_IP'), ('serpent.py', '_FP'), ('threefish.py', 'Threefish.dec'), ('operators.py', 'rol'), ('operators.py', 'ror')]
REQUIRED = ['siblings:dec-inverts-enc', 'dec(enc(B))==B', 'enc(dec(B))==B', 'block-length', 'aes:Sbox-pair', 'aes:ShiftRows-pair', 'aes:MixColumns-pair', 'des:IP-pair',
            'serpent:S-pair', 'serpent:IP/FP-pair', 'serpent:L-pair', 'rol/ror-pair', 'salsa/chacha:index-maps']
NSHARDS = 14
SAN = {'quick': (2, 60), 'thorough': (2, 60)}

def cases(tier, rng):
    for x in c02.cipher_cases(tier, rng):
        yield x
    for x in c02.sibling_cases(tier):
        yield x
    for pos in range(16):
        yield {'k': 'aes-comp', 'pos': pos}
    for j in range(8 if tier == 'quick' else 100):
        yield {'k': 'aes-rand', 'j': j}
    yield {'k': 'des-ip'}
    for box in range(8):
        for pos in range(0, 32, 8):
            yield {'k': 'serpent-s', 'box': box, 'lo': pos, 'hi': pos + 8}
    yield {'k': 'serpent-ipfp'}
    for lo in range(0, 128, 16):
        yield {'k': 'serpent-l', 'lo': lo, 'hi': lo + 16}
    for j in range(6 if tier == 'quick' else 60):
        yield {'k': 'serpent-rand', 'j': j}
    for w in range(1, 131):
        yield {'k': 'rot', 'w': w}
    yield {'k': 'maps'}

def run(case, ctx, rng):
    k = case['k']
    if k == 'cipher':
        c = case['c']
        K, T, kbits = c02.material(case, rng)
        n = c02.blocklen(c)
        B = c02.block_of(case, rng, n)
        ctx.cls((c, case.get('kl', 0), case['kp'], case.get('tp', ''), case.get('eqp', ''), case['bp'], 'bits' if kbits else ''))
        det = dict(cipher=c, K=K, T=T, B=B, kbits=kbits)
        obj = call(c02.build, c, K, T, kbits)
        if is_exc(obj):
            ctx.eq('dec(enc(B))==B', obj, B, **det); return
        e = call(obj.enc, B)
        ctx.eq('dec(enc(B))==B', e if is_exc(e) else call(obj.dec, e), B, **det)
        d = call(obj.dec, B)
        ctx.eq('enc(dec(B))==B', d if is_exc(d) else call(obj.enc, d), B, **det)
        for x in (e, d):
            if not is_exc(x):
                ctx.check('block-length', isinstance(x, bytes) and len(x) == n, len(x), n, **det)
        # a refused call (wrong block length) must not disturb the pair
        if not is_exc(e):
            call(obj.dec, B + b'x'); call(obj.enc, B[:-1])
            ctx.eq('dec(enc(B))==B', call(lambda: obj.dec(obj.enc(B))), B, after_refused_calls=True, **det)
            ctx.eq('enc(dec(B))==B', call(lambda: obj.enc(obj.dec(B))), B, after_refused_calls=True, **det)
        if c == 'des' and not is_exc(e):
            from crysp.bits import Bits
            o3 = c02.build(c, K, T, kbits); o3.enc(B)
            o3.K = Bits(rng.randbytes(8), 64)             # re-keyed through the public attribute
            ctx.eq('dec(enc(B))==B', call(lambda: o3.dec(o3.enc(B))), B, rekeyed=True, **det)
        if c.startswith('aes') and not is_exc(e):
            o4 = c02.build(c, K, T, kbits); o4.enc(B)
            o4.Nr = o4.Nr - 2                              # reduced-round variant on a live object: still a permutation pair
            ctx.eq('dec(enc(B))==B', call(lambda: o4.dec(o4.enc(B))), B, reduced_rounds=True, **det)
        if not is_exc(e) and (c.startswith('tf') or c.startswith('aes')):
            # round counts set on a live object through the public Nr: enc and dec still undo each other round for round
            full = obj.Nr
            for nr in ((1, 2, 3, 5, 6, 7, 9, full - 1, full - 2, full - 3, full + 1, full + 4) if c.startswith('tf') else (1, 2, full - 1, full - 3)):
                o5 = c02.build(c, K, T, kbits); o5.Nr = nr
                ctx.eq('dec(enc(B))==B', call(lambda: o5.dec(o5.enc(B))), B, Nr=nr, **det)
                ctx.eq('enc(dec(B))==B', call(lambda: o5.enc(o5.dec(B))), B, Nr=nr, **det)
        if not is_exc(e) and kbits is None:
            # caller-owned mutable arguments: a key given as a Bits the caller wipes between enc and dec, a block given as a Bits
            from crysp.bits import Bits
            kb = Bits(K, bitorder=1)
            o6 = call(lambda: {'aes': lambda: __import__('crysp.aes', fromlist=['AES']).AES(kb), 'ser': lambda: __import__('crysp.serpent', fromlist=['Serpent']).Serpent(kb)}[c[:3]]()) if c[:3] in ('aes', 'ser') else None
            if o6 is not None and not is_exc(o6):
                e6 = call(o6.enc, B)
                kb.ival = 0; kb.size = 8
                ctx.eq('dec(enc(B))==B', e6 if is_exc(e6) else call(o6.dec, e6), B, key='a Bits object wiped by the caller between enc and dec', **det)
                ctx.eq('dec(enc(B))==B', e6, e, key='a Bits object', **det)
            bo = -1 if c in ('des',) or c.startswith('tdea') else 1        # each cipher's own bytes-to-bits convention
            blk = Bits(B, bitorder=bo)
            snap = (blk.ival, blk.size)
            e7 = call(obj.enc, blk)
            if not (c.startswith('aes') and is_exc(e7)):           # (AES takes bytes only: whatever error it raises for a Bits block is a refusal)
                ctx.eq('dec(enc(B))==B', e7, e, block='given as Bits', **det)
                ctx.eq('dec(enc(B))==B', (blk.ival, blk.size), snap, block='the caller\'s Bits block is left unchanged by enc', **det)
                ctx.eq('dec(enc(B))==B', call(obj.enc, blk), e, block='the same Bits block encrypted again', **det)
                cb = Bits(e, bitorder=bo) if not is_exc(e) else None
                if cb is not None:
                    ctx.eq('dec(enc(B))==B', call(obj.dec, cb), B, block='ciphertext given as Bits', **det)
                    ctx.eq('dec(enc(B))==B', (cb.ival, cb.size), (Bits(e, bitorder=bo).ival, 8 * len(e)), block='the caller\'s Bits block is left unchanged by dec', **det)
        if not is_exc(e) and case['bp'] == 'rand':
            # copies of the object (shallow, deep, pickled -- whichever it supports) are the same permutation pair, and the original stays one
            import copy, pickle
            for nm, f in (('copy.copy', copy.copy), ('copy.deepcopy', copy.deepcopy), ('pickle round trip', lambda x: pickle.loads(pickle.dumps(x)))):
                oc = call(f, obj)
                if is_exc(oc):
                    continue
                ctx.eq('dec(enc(B))==B', call(oc.dec, e), B, copy_made_by=nm, direction='the copy decrypts what the original encrypted', **det)
                ctx.eq('dec(enc(B))==B', call(lambda: obj.dec(oc.enc(B))), B, copy_made_by=nm, direction='the original decrypts what the copy encrypted', **det)
        # a second object with the same key inverts the first (no per-object state in the inverse)
        if not is_exc(e):
            ctx.eq('dec(enc(B))==B', call(lambda: c02.build(c, K, T, kbits).dec(e)), B, fresh_object=True, **det)
    elif k == 'siblings':
        from vmon.core import siblings
        ctx.cls(('siblings', case['fam'], case['j'] % 3))
        specs = []; blen = {}
        for name, c, K, T, kb in c02.sibling_specs(case, rng):
            blen[name] = c02.blocklen(c)
            n = c02.blocklen(c); B1 = rng.randbytes(n); B2 = rng.randbytes(n)
            specs.append((name, (lambda c=c, K=K, T=T, kb=kb: c02.build(c, K, T, kb)),
                          [('dec(enc(B1))', (lambda o, B=B1: o.dec(o.enc(B))), B1), ('enc(dec(B1))', (lambda o, B=B1: o.enc(o.dec(B))), B1),
                           ('dec(enc(B2))', (lambda o, B=B2: o.dec(o.enc(B))), B2), ('enc(dec(B2))', (lambda o, B=B2: o.enc(o.dec(B))), B2)]))
        late = specs.pop() if len(specs) > 3 else None
        siblings(ctx, rng, 'siblings:dec-inverts-enc', specs, late=late, family=case['fam'])
        # split round trips: other objects of the family are used *between* the enc and the dec of one object
        objs = [(name, call(new)) for name, new, _ in specs]
        objs = [(nm, o) for nm, o in objs if not is_exc(o)]
        for rnd in range(2):
            pend = []
            for nm, o in objs:
                B = rng.randbytes(blen[nm])
                pend.append((nm, o, B, call(o.enc, B), call(o.dec, B)))
            rng.shuffle(pend)
            for nm, o, B, e, d in pend:
                oth = rng.choice(objs)[1]
                call(oth.enc, rng.randbytes(blen[[n2 for n2, o2 in objs if o2 is oth][0]]))
                if not is_exc(e):
                    ctx.eq('siblings:dec-inverts-enc', call(o.dec, e), B, sibling=nm, split='enc … others … dec', family=case['fam'])
                if not is_exc(d):
                    ctx.eq('siblings:dec-inverts-enc', call(o.enc, d), B, sibling=nm, split='dec … others … enc', family=case['fam'])
    else:
        globals()['run_' + k.replace('-', '_')](case, ctx, rng)

def pair(ctx, mon, f, finv, x, show=lambda v: v, **det):
    a = call(lambda: show(finv(f(x)))); b = call(lambda: show(f(finv(x))))
    ctx.eq(mon, a, show(x), order='finv(f(x))', **det)
    ctx.eq(mon, b, show(x), order='f(finv(x))', **det)

def cold_components(ctx):
    """the module-level component functions used by a program that has not constructed any cipher object yet"""
    import subprocess, sys, json
    code = ("import json\nfrom crysp.aes import Sbox, Sbox_inv, gmul\nfrom crysp.poly import Poly\n"
            "out = {}\n"
            "out['sbox'] = [int(Sbox_inv(Sbox(Poly(bytes([x] * 4)))).ival[0]) for x in (0, 1, 0x53, 0xff)]\n"
            "out['inv'] = [int(Sbox(Sbox_inv(Poly(bytes([x] * 4)))).ival[0]) for x in (0, 1, 0x53, 0xff)]\n"
            "out['gmul'] = [gmul(0x57, 0x83), gmul(7, 1), gmul(0, 9)]\n"
            "from crysp.utils.operators import rol, ror\nfrom crysp.bits import Bits\n"
            "out['rot'] = [int(ror(rol(Bits(0xffffffff, 32), 7), 7)), int(rol(Bits(0x80000001, 32), 1))]\n"
            "from crysp.serpent import _L, _Linv\nout['L'] = int(_Linv(_L(Bits((1 << 128) - 1, 128))))\n"
            "print(json.dumps(out))")
    r = subprocess.run([sys.executable, '-B', '-c', code], capture_output=True, text=True, timeout=300)
    got = r.stdout.strip().splitlines()[-1] if r.returncode == 0 and r.stdout.strip() else 'EXC:' + (r.stderr.strip().splitlines() or ['?'])[-1][:160]
    want = json.dumps({'sbox': [0, 1, 0x53, 0xff], 'inv': [0, 1, 0x53, 0xff], 'gmul': [0xc1, 7, 0], 'rot': [0xffffffff, 3], 'L': (1 << 128) - 1})
    ctx.eq('aes:Sbox-pair', got, want, where='a pristine interpreter that has constructed no cipher object')

def run_aes_comp(case, ctx, rng):
    if case['pos'] == 0:
        cold_components(ctx)
    from crysp.aes import AES, Sbox, Sbox_inv
    from crysp.poly import Poly
    pos = case['pos']
    ctx.cls(('aes-comp', pos))
    A = AES(bytes(16))
    def meth(m):
        def f(st):
            s = Poly(st); getattr(A, m)(s); return s
        return f
    for v in range(256):
        base = rng.randbytes(16) if v % 2 else bytes(16)
        st = bytearray(base); st[pos] = v
        x = Poly(bytes(st))
        sh = lambda p: list(p.ival)
        pair(ctx, 'aes:Sbox-pair', Sbox, Sbox_inv, x, sh, pos=pos, v=v)
        pair(ctx, 'aes:SubBytes-pair', meth('SubBytes'), meth('InvSubBytes'), x, sh, pos=pos, v=v)
        pair(ctx, 'aes:ShiftRows-pair', meth('ShiftRows'), meth('InvShiftRows'), x, sh, pos=pos, v=v)
        pair(ctx, 'aes:MixColumns-pair', meth('MixColumns'), meth('InvMixColumns'), x, sh, pos=pos, v=v)
    ctx.exhaustive['AES component pairs: 256 byte values in each of 16 positions'] += 256

def run_aes_rand(case, ctx, rng):
    from crysp.aes import AES, Sbox, Sbox_inv
    from crysp.poly import Poly
    ctx.cls(('aes-rand', case['j'] % 4))
    A = AES(bytes(16))
    def meth(m):
        def f(st):
            s = Poly(st); getattr(A, m)(s); return s
        return f
    sh = lambda p: list(p.ival)
    for _ in range(20):
        x = Poly(rng.randbytes(16))
        pair(ctx, 'aes:Sbox-pair', Sbox, Sbox_inv, x, sh)
        pair(ctx, 'aes:ShiftRows-pair', meth('ShiftRows'), meth('InvShiftRows'), x, sh)
        pair(ctx, 'aes:MixColumns-pair', meth('MixColumns'), meth('InvMixColumns'), x, sh)

def vectors(rng, n, extra=8):
    """unit vectors, their complements, zero, ones and random n-bit values"""
    full = (1 << n) - 1
    vs = [1 << i for i in range(n)] + [full ^ (1 << i) for i in range(n)] + [0, full]
    return vs + [rng.getrandbits(n) for _ in range(extra)]

def run_des_ip(case, ctx, rng):
    from crysp.des import IP, IPinv
    from crysp.bits import Bits
    ctx.cls('des-ip')
    sh = lambda b: (b.ival, b.size)
    for v in vectors(rng, 64, 64):
        pair(ctx, 'des:IP-pair', IP, IPinv, Bits(v, 64), sh, v=v)

def run_serpent_s(case, ctx, rng):
    from crysp.serpent import _S, _Sinv
    from crysp.bits import Bits
    box = case['box']
    ctx.cls(('serpent-s', box, case['lo']))
    sh = lambda b: (b.ival, b.size)
    for pos in range(case['lo'], case['hi']):
        for v in range(16):
            base = rng.getrandbits(128) if v % 2 else 0
            for j in range(4):                       # nibble `pos` of the bit-sliced state = bits pos, 32+pos, 64+pos, 96+pos
                base = (base & ~(1 << (32 * j + pos))) | (((v >> j) & 1) << (32 * j + pos))
            x = Bits(base, 128)
            pair(ctx, 'serpent:S-pair', lambda X: _S(box, X), lambda X: _Sinv(box, X), x, sh, box=box, pos=pos, v=v)
    ctx.exhaustive['Serpent S-box pairs: 8 boxes x 16 nibble values x 32 positions'] += 16 * (case['hi'] - case['lo'])

def run_serpent_ipfp(case, ctx, rng):
    from crysp.serpent import _IP, _FP
    from crysp.bits import Bits
    ctx.cls('serpent-ipfp')
    sh = lambda b: (b.ival, b.size)
    for v in vectors(rng, 128, 64):
        pair(ctx, 'serpent:IP/FP-pair', _IP, _FP, Bits(v, 128), sh, v=v)

def run_serpent_l(case, ctx, rng):
    from crysp.serpent import _L, _Linv
    from crysp.bits import Bits
    ctx.cls(('serpent-l', case['lo']))
    sh = lambda b: (b.ival, b.size)
    full = (1 << 128) - 1
    for i in range(case['lo'], case['hi']):
        for v in (1 << i, full ^ (1 << i), rng.getrandbits(128)):
            pair(ctx, 'serpent:L-pair', _L, _Linv, Bits(v, 128), sh, v=v)
        # states made of special 32-bit words (all ones, zero, single bits, complements): where a rotation or an xor hits a fixed point
        for _ in range(6):
            v = int.from_bytes(pattern(rng, 16, 'xwords'), 'little')
            pair(ctx, 'serpent:L-pair', _L, _Linv, Bits(v, 128), sh, v=v)
    ctx.exhaustive['Serpent linear layer pair on the 128 unit vectors'] += case['hi'] - case['lo']

def run_serpent_rand(case, ctx, rng):
    from crysp.serpent import _L, _Linv, _S, _Sinv, _IP, _FP
    from crysp.bits import Bits
    ctx.cls(('serpent-rand', case['j'] % 4))
    sh = lambda b: (b.ival, b.size)
    for _ in range(10):
        x = Bits(rng.getrandbits(128), 128)
        pair(ctx, 'serpent:L-pair', _L, _Linv, x, sh)
        pair(ctx, 'serpent:IP/FP-pair', _IP, _FP, x, sh)
        box = rng.randrange(8)
        pair(ctx, 'serpent:S-pair', lambda X: _S(box, X), lambda X: _Sinv(box, X), x, sh, box=box)

def run_rot(case, ctx, rng):
    from crysp.utils.operators import rol, ror
    from crysp.bits import Bits
    w = case['w']
    ctx.cls(('rot', w))
    sh = lambda b: (b.ival, b.size)
    vals = {0, (1 << w) - 1, 1, 1 << (w - 1), rng.getrandbits(w), rng.getrandbits(w), int('01' * w, 2) & ((1 << w) - 1)}
    for v in sorted(vals):
        for kk in range(0, w + 1):
            pair(ctx, 'rol/ror-pair', lambda x: rol(x, kk), lambda x: ror(x, kk), Bits(v, w), sh, w=w, k=kk, v=v)
    ctx.exhaustive['rol/ror pair: every width 1..130 with every amount 0..width'] += w + 1

def run_maps(case, ctx, rng):
    import crysp.salsa20 as S, crysp.chacha as C
    from crysp.poly import Poly
    ctx.cls('maps')
    for name, mod in (('salsa20', S), ('chacha', C)):
        for a, b in (('rM', 'rMinv'), ('cM', 'cMinv')):
            f, g = list(getattr(mod, a)), list(getattr(mod, b))
            ctx.check('salsa/chacha:index-maps', sorted(f) == list(range(16)) and sorted(g) == list(range(16)) and
                      all(g[f[i]] == i and f[g[i]] == i for i in range(16)), (f, g), 'mutually inverse permutations of 0..15', module=name, pair=a)
            for _ in range(20):
                x = Poly([rng.getrandbits(32) for _ in range(16)], 32)
                ctx.eq('salsa/chacha:index-maps', call(lambda: list(x[f][g].ival)), list(x.ival), module=name, pair=a, order='inv(f)')
                ctx.eq('salsa/chacha:index-maps', call(lambda: list(x[g][f].ival)), list(x.ival), module=name, pair=a, order='f(inv)')

def classify(case, fail):
    return None
