"""C10  One-shot results depend only on the arguments, never on earlier calls."""
import itertools, json, os, sys
from vmon.core import call, is_exc, Exc, CaseTimeout
from vmon import sanitize

ID = 'C10'
LEVEL = 'fault_enumeration'
TECHNIQUE = ('runtime monitoring of call histories: every call of an enumerated history on one live object is compared with the same call on a '
             'fresh object; faults are natural (raising calls) and injected at executed crysp lines through sys.monitoring failpoints; '
             'S3 global-state sanitizer after every step')
RULE = ('class = (object kind, call sequence) and (object kind, faulted call, injection point, following call); per kind a call alphabet '
        '(default call, each optional per-call parameter, short/empty/long input, partial update, naturally raising calls); ALL sequences of '
        'length <= 2 (quick) / <= 3 (thorough) over each alphabet, random longer sequences, sibling-instance and shared-singleton '
        'interleavings; failpoints: every alphabet call interrupted at 5 (quick) / 150 (thorough) of its executed crysp lines (evenly spread plus random ones; all lines when the call executes fewer), then '
        'every alphabet call on the same object; oracle = the same call on a freshly constructed, equally configured object')
ASSUMPTIONS = ['the oracle is crysp itself on a fresh object (the property is history-independence; correctness of fresh objects is C01-C19)',
               'stream objects that are continuous by contract (RC4, Keccak.duplex, explicit update chains) are not in the alphabets',
               'failpoints raise at line granularity inside crysp code']
ANCHORS = [('sha.py', 'SHA1.__call__'), ('md.py', 'MD4.__call__'), ('blake.py', 'Blake.__call__'), ('blake.py', 'Blake2.__call__'), ('blake.py', 'Blake2.initstate'),
           ('skein.py', 'Skein.__call__'), ('skein.py', 'Skein._initstate'), ('tlsh.py', 'TLSH.__call__'), ('tlsh.py', 'TLSH.reset'),
           ('nilsimsa.py', 'Nilsimsa.__call__'), ('nilsimsa.py', 'Nilsimsa.reset'), ('mode.py', 'ECB.enc'), ('mode.py', 'CBC.enc'), ('mode.py', 'CTR.enc'),
           ('keccak.py', 'Keccak.__call__'), ('hmac.py', 'HMAC.__call__'), ('aes.py', 'AES.keyschedule'), ('salsa20.py', 'Salsa20.enc')]
REQUIRED = ['history:result==fresh', 'interleaved:result==fresh', 'after-fault:result==fresh', 'arguments-unchanged', 'S3-global-state']
NSHARDS = 15
SAN = {'quick': (1, 60), 'thorough': (1, 60)}
S3_EVERY = 1
CASE_CPU_S = 600
LINE_BUDGET = 150_000_000          # executed crysp lines per fault case (about a minute of CPU)
_LINES = {}

M0 = b''
M1 = bytes(range(1, 41))
M2 = bytes((7 * i + 3) & 0xff for i in range(150))
M3 = bytes((11 * i + 5) & 0xff for i in range(300))
K16 = bytes(range(16, 32)); K32 = bytes(range(32, 64)); K8 = b'\x13\x34\x57\x79\x9b\xbc\xdf\xf1'
B8 = b'ABCDEFGH'; B16 = b'0123456789abcdef'; IV16 = bytes(range(100, 116)); IV8 = bytes(range(100, 108))
TEXT = (b'The quick brown fox jumps over the lazy dog. ' * 8)[:300]
TEXT2 = bytes((37 * i * i + 11 * i) & 0xff for i in range(400))

class Family(object):
    """constructor of a family of objects that are alive together.  In a pristine oracle process only the member that the
    call touches is constructed (lazy), so that the expected value comes from a lone, freshly constructed object."""
    def __init__(self, *ctors):
        self.ctors = ctors
    def __call__(self):
        return [c() for c in self.ctors]
    def lazy(self):
        ctors = self.ctors
        class Lazy(object):
            def __init__(s): s.made = {}
            def __getitem__(s, i):
                if i not in s.made: s.made[i] = ctors[i]()
                return s.made[i]
        return Lazy()

def norm(x):
    if isinstance(x, (bytes, bytearray)): return bytes(x)
    if isinstance(x, (tuple, list)): return tuple(norm(y) for y in x)
    return x

def kinds():
    """{kind: (constructor, [(label, call(obj))], singleton getter or None)}"""
    from crysp.sha import SHA1, SHA2, SHA3
    from crysp.md import MD4, MD5, MD6
    from crysp.blake import Blake, Blake2
    import crysp.blake as BK, crysp.keccak as KK, crysp.tlsh as TL
    from crysp.keccak import Keccak
    from crysp.skein import Skein
    from crysp.hmac import HMAC
    from crysp.tlsh import TLSH
    from crysp.nilsimsa import Nilsimsa
    from crysp.aes import AES
    from crysp.des import DES, TDEA
    from crysp.serpent import Serpent
    from crysp.threefish import Threefish
    from crysp.mode import ECB, CBC, CTR, CTS_ECB, CTS_CBC
    from crysp.padding import nopadding, X923
    from crysp.salsa20 import Salsa20
    from crysp.chacha import Chacha
    from crysp.bits import Bits
    import crysp.crc as CRC
    from crysp.utils import knapsack as KS
    K = {}
    def md_alpha(block):
        return [('h(M1)', lambda o: o(M1)), ('h(empty)', lambda o: o(M0)), ('h(M2)', lambda o: o(M2)), ('h(M1,bitlen=13)', lambda o: o(M1, bitlen=13)),
                ('h(M1,bitlen=too-big)!', lambda o: o(M1, bitlen=8 * len(M1) + 1)), ('~update(block)', lambda o: (o.update(bytes(block)), None)[1]),
                ('h(int)!', lambda o: o(12345))]
    K['SHA1'] = (lambda: SHA1(1), md_alpha(64), None)
    K['SHA0'] = (lambda: SHA1(0), md_alpha(64)[:4], None)
    K['SHA2-256'] = (lambda: SHA2(256), md_alpha(64), None)
    K['SHA2-512/224'] = (lambda: SHA2(512, 224), md_alpha(128), None)
    K['MD4'] = (MD4, md_alpha(64), None)
    K['MD5'] = (MD5, md_alpha(64), None)
    K['SHA3-256'] = (lambda: SHA3(256), [('h(M1)', lambda o: o(M1)), ('h(empty)', lambda o: o(M0)), ('h(M3)', lambda o: o(M3)), ('h(int)!', lambda o: o(5))], None)
    kec = [('h(M1)', lambda o: o(M1)), ('h(empty)', lambda o: o(M0)), ('h(M1,bitlen=13)', lambda o: o(M1, bitlen=13)), ('h(M2,r=576)', lambda o: o(M2, r=576)),
           ('h(M1,r=1344)', lambda o: o(M1, r=1344)), ('h(M1,bitlen=too-big)!', lambda o: o(M1, bitlen=999)), ('h(M1,r=1600)!', lambda o: o(M1, r=1600)), ('h(M1,bitlen=too-big,r=1344)!', lambda o: o(M1, bitlen=999, r=1344))]
    K['Keccak'] = (lambda: Keccak(b=1600, c=512, len=256), kec, lambda: KK.keccak_256)
    K['Keccak-200'] = (lambda: Keccak(b=200, r=40, len=160), [('h(M1)', lambda o: o(M1)), ('h(M1,bitlen=43)', lambda o: o(M1, bitlen=43)), ('h(M1,r=72)', lambda o: o(M1, r=72)),
                                                                 ('h(empty)', lambda o: o(M0))], None)
    def mk_md6():
        h = MD6(256, b'key', 1); h.rounds = 2; return h
    K['MD6'] = (mk_md6, [('h(M1)', lambda o: o(M1)), ('h(empty)', lambda o: o(M0)), ('h(M1,bitlen=77)', lambda o: o(M1, bitlen=77)),
                         ('h(600 bytes)', lambda o: o(M3 + M3)), ('h(M1,bitlen=too-big)!', lambda o: o(M1, bitlen=4000))], None)
    # the same class in its default configuration (unkeyed, fully hierarchical, default round count) and in sequential mode
    K['MD6-default'] = (lambda: MD6(256), [('h(M1)', lambda o: o(M1)), ('h(600 bytes)', lambda o: o(M3 + M3)), ('h(empty)', lambda o: o(M0)), ('h(M2,bitlen=1111)', lambda o: o(M2, bitlen=1111))], None)
    def mk_md6seq():
        h = MD6(160, b'', 0); h.rounds = 3; return h
    K['MD6-sequential'] = (mk_md6seq, [('h(M1)', lambda o: o(M1)), ('h(600 bytes)', lambda o: o(M3 + M3)), ('h(900 bytes)', lambda o: o(M3 + M3 + M3)), ('h(M1,bitlen=too-big)!', lambda o: o(M1, bitlen=4000))], None)
    bl = [('h(M1)', lambda o: o(M1)), ('h(empty)', lambda o: o(M0)), ('h(M2)', lambda o: o(M2)), ('h(M1,salt)', lambda o: o(M1, 0x1234567890abcdef)),
          ('h(M1,salt,bitlen=13)', lambda o: o(M1, 7, 13)), ('h(M1,bitlen=too-big)!', lambda o: o(M1, 0, 999)),
          ('initstate+update(block)', lambda o: (o.initstate(), o.update(bytes(o.blocksize // 8)), None)[2])]
    K['Blake256'] = (lambda: Blake(256), bl, lambda: BK.blake256)
    K['Blake512'] = (lambda: Blake(512), bl[:5], lambda: BK.blake512)
    b2 = [('h(M1)', lambda o: o(M1)), ('h(empty)', lambda o: o(M0)), ('h(M3)', lambda o: o(M3)), ('h(M1,outlen=20)', lambda o: o(M1, outlen=20)),
          ('h(M1,salt)', lambda o: o(M1, salt=b'S' * (o.wsize // 4))), ('h(M1,pers)', lambda o: o(M1, pers=b'P' * (o.wsize // 4))),
          ('h(M1,tree)', lambda o: o(M1, fanout=2, depth=3, leafl=64, noffset=5, ndepth=1, inner=16)), ('h(M1,keylen=7)', lambda o: o(M1, keylen=7)),
          ('h(M1,outlen=200)!', lambda o: o(M1, outlen=200))]
    K['Blake2b'] = (lambda: Blake2(512), b2, lambda: BK.blake2b)
    K['Blake2s'] = (lambda: Blake2(256), b2, lambda: BK.blake2s)
    sk = [('h(M1)', lambda o: o(M1)), ('h(empty)', lambda o: o(M0)), ('h(M2)', lambda o: o(M2)), ('h(M1,bitlen=13)', lambda o: o(M1, 13)), ('h(int)!', lambda o: o(77))]
    K['Skein256'] = (lambda: Skein(256, 256), sk, None)
    K['Skein512-mac-tree'] = (lambda: Skein(512, 520, key=b'k' * 9, prs=b'p', nonce=b'n', Yl=1, Yf=1, Ym=2), sk[:3] + [sk[4]], None)
    K['HMAC-SHA256'] = (lambda: HMAC(SHA2(256), b'key'), [('mac(M1)', lambda o: o(M1)), ('mac(empty)', lambda o: o(M0)), ('mac(M2)', lambda o: o(M2)), ('mac(str)!', lambda o: o('text')),
                                                           ('@setkey(k2);mac(M1);setkey(key)', lambda o: (o.setkey(b'another key'), o(M1), o.setkey(b'key'))[1])], None)
    K['HMAC-MD5-longkey'] = (lambda: HMAC(MD5(), M2), [('mac(M1)', lambda o: o(M1)), ('mac(empty)', lambda o: o(M0)), ('mac(str)!', lambda o: o('text'))], None)
    tl = [('h(TEXT,force)', lambda o: o(TEXT, True)), ('h(TEXT2)', lambda o: o(TEXT2)), ('h(short)->None', lambda o: o(M1)), ('h(TEXT) no force', lambda o: o(TEXT[:200])),
          ('h(const)->None', lambda o: o(b'a' * 300)), ('h(int)!', lambda o: o(12)), ('~update(TEXT)', lambda o: (o.update(TEXT), None)[1]),
          ('~from_hash(digest of a 256-bucket configuration)', lambda o: (o.from_hash(bytes(range(67))), None)[1]), ('~from_hash(too short)', lambda o: (o.from_hash(b'abc'), None)[1])]
    K['TLSH128'] = (lambda: TLSH(128), tl, lambda: TL.tlsh)
    K['TLSH48-3'] = (lambda: TLSH(48, 4, 3), tl[:5], None)
    K['Nilsimsa'] = (lambda: Nilsimsa(), [('h(M1)', lambda o: o(M1)), ('h(empty)', lambda o: o(M0)), ('h(TEXT)', lambda o: o(TEXT)), ('~update(M2)', lambda o: (o.update(M2), None)[1]),
                                          ('h(list with str)!', lambda o: o([1, 2, 3, 4, 5, 'x', 7])), ('h(abc)', lambda o: o(b'abc'))], None)
    def ciph(block):
        B = bytes(range(65, 65 + block)); B2 = bytes(range(1, 1 + block))
        return [('enc(B)', lambda o: o.enc(B)), ('dec(B)', lambda o: o.dec(B)), ('enc(B2)', lambda o: o.enc(B2)), ('enc(short)!', lambda o: o.enc(B[:-1])), ('dec(long)!', lambda o: o.dec(B + b'x'))]
    K['AES128'] = (lambda: AES(K16), ciph(16), None)
    K['AES256'] = (lambda: AES(K32), ciph(16)[:3], None)
    K['DES'] = (lambda: DES(K8), ciph(8), None)
    K['TDEA'] = (lambda: TDEA(K8, K16[:8], K16[8:]), ciph(8)[:4], None)
    K['Serpent'] = (lambda: Serpent(K16), ciph(16)[:4], None)
    K['Threefish256'] = (lambda: Threefish(K32, IV16), ciph(32), None)
    def mode_alpha(newc, block, iv=False):
        C1 = [None]
        def dec_valid(o):
            if C1[0] is None: C1[0] = newc().enc(M1)
            return o.dec(C1[0])
        return [('enc(M1)', lambda o: o.enc(M1)), ('enc(empty)', lambda o: o.enc(M0)), ('enc(M2)', lambda o: o.enc(M2)), ('dec(valid)', dec_valid),
                ('dec(bad length)!', lambda o: o.dec(M1[:block + 3])), ('dec(garbage)', lambda o: o.dec(M2[:4 * block])), ('enc(int)!', lambda o: o.enc(5))]
    for nm, f in (('ECB-AES', lambda: ECB(AES(K16))), ('CBC-AES', lambda: CBC(AES(K16), IV16)), ('CBC-DES-X923', lambda: CBC(DES(K8), IV8, X923)),
                  ('ECB-TDEA', lambda: ECB(TDEA(K8 + K16)))):
        K[nm] = (f, mode_alpha(f, 16 if 'AES' in nm else 8), None)
    ecbn = lambda: ECB(AES(K16), nopadding)
    K['ECB-AES-nopadding'] = (ecbn, [('enc(2 blocks)', lambda o: o.enc(M2[:32])), ('enc(partial)!', lambda o: o.enc(M1)), ('enc(1 block)', lambda o: o.enc(B16)), ('dec(1 block)', lambda o: o.dec(B16))], None)
    ctr = lambda: CTR(AES(K16), IV16)
    K['CTR-AES'] = (ctr, [('enc(M1)', lambda o: o.enc(M1)), ('enc(empty)', lambda o: o.enc(M0)), ('enc(M2)', lambda o: o.enc(M2)), ('dec(M1)', lambda o: o.dec(M1)), ('enc(int)!', lambda o: o.enc(5))], None)
    ctrw = lambda: CTR(AES(K16), IV16[:8] + b'\xff' * 7 + b'\xfe')
    K['CTR-AES-wrapping-counter'] = (ctrw, [('enc(M1)', lambda o: o.enc(M1)), ('enc(M2)', lambda o: o.enc(M2)), ('enc(3 bytes)', lambda o: o.enc(b'abc')), ('dec(M2)', lambda o: o.dec(M2))], None)
    K['CTS_ECB-AES'] = (lambda: CTS_ECB(AES(K16)), [('enc(M1)', lambda o: o.enc(M1)), ('enc(2 blocks)', lambda o: o.enc(M2[:32])), ('enc(M2)', lambda o: o.enc(M2)), ('dec(M1)', lambda o: o.dec(M1)), ('enc(short)!', lambda o: o.enc(b'abc'))], None)
    K['CTS_CBC-DES'] = (lambda: CTS_CBC(DES(K8), IV8), [('enc(M1)', lambda o: o.enc(M1)), ('enc(2 blocks)', lambda o: o.enc(M2[:16])), ('enc(M2)', lambda o: o.enc(M2)), ('dec(M1)', lambda o: o.dec(M1))], None)
    V = lambda: Bits(IV8, bitorder=1); V2 = lambda: Bits(B8, bitorder=1)
    st = [('enc(v,M1)', lambda o: o.enc(V(), M1)), ('enc(v2,M1)', lambda o: o.enc(V2(), M1)), ('enc(v,M2)', lambda o: o.enc(V(), M2)), ('enc(v,empty)', lambda o: o.enc(V(), M0)),
          ('dec(v,M1)', lambda o: o.dec(V(), M1)), ('enc(bad nonce)!', lambda o: o.enc(Bits(5, 32), M1)), ('keystream abandoned', lambda o: (next(o.keystream(V2())), None)[1])]
    K['Salsa20'] = (lambda: Salsa20(Bits(K32, bitorder=1)), st, None)
    K['Chacha-128-12'] = (lambda: Chacha(Bits(K16, bitorder=1), 12), st[:5], None)
    K['crc (functions)'] = (lambda: CRC, [('crc32(M1)', lambda o: o.crc32(M1)), ('crc32(M2)', lambda o: o.crc32(M2)), ('crc32_fix(M1)', lambda o: o.crc32_fix(M1, 0xdeadbeef)),
                                          ('crc32_fix_pos(M2)', lambda o: o.crc32_fix_pos(M2, 9, 1)), ('crc(str)->None', lambda o: o.crc('abc', o.TABLE32_1)), ('crc32(int)!', lambda o: o.crc32(5)),
                                          ('crc(M1, caller-made table for 0x8408)', lambda o: o.crc(M1, [Bits(int(e), 16) for e in o.crc_table(Bits(0x8408, 16))], 0xffff, 0)),
                                          ('crc(M1, caller-made table for 0xa001)', lambda o: o.crc(M1, [Bits(int(e), 16) for e in o.crc_table(Bits(0xa001, 16))], 0xffff, 0)),
                                          ('crc(M2, caller-made table for 0xedb88320)', lambda o: o.crc(M2, [Bits(int(e), 32) for e in o.crc_table(Bits(0xedb88320, 32))], 0, 0))], None)
    IT = [(0, 3), (1, 5), (2, 7), (3, 9)]
    K['knapsack (functions)'] = (lambda: KS, [('exactsum(12)', lambda o: o.exactsum(list(IT), 12)), ('exactsum(5)', lambda o: o.exactsum(list(IT), 5)), ('exactsum(impossible)', lambda o: o.exactsum(list(IT), 4)),
                                              ('dynprog(16)', lambda o: o.dynprog(list(IT), 16)), ('exactsum(bad item)!', lambda o: o.exactsum([(0, 3), 5, (1, 2)], 5))], None)
    # ---- families: objects of one class with *different* configurations alive together (call = use of one member) ----
    KZ = K16[:8] + bytes(8)
    K['AES-family (integer-equal keys)'] = (Family(lambda: AES(KZ), lambda: AES(KZ + bytes(8)), lambda: AES(KZ + bytes(16))),        [('128.enc', lambda o: o[0].enc(B16)), ('192.enc', lambda o: o[1].enc(B16)), ('256.enc', lambda o: o[2].enc(B16)), ('128.dec', lambda o: o[0].dec(B16)), ('256.dec', lambda o: o[2].dec(B16))], None)
    K['Threefish-family'] = (Family(lambda: Threefish(K32, IV16), lambda: Threefish(K32 + K32, IV16), lambda: Threefish(M2[:128], IV16)),        [('256.enc', lambda o: o[0].enc(K32)), ('512.enc', lambda o: o[1].enc(M2[:64])), ('1024.enc', lambda o: o[2].enc(M2[:128])),
         ('256.dec', lambda o: o[0].dec(K32)), ('512.dec', lambda o: o[1].dec(M2[:64])), ('1024.dec', lambda o: o[2].dec(M2[:128]))], None)
    K['Skein-family (same No)'] = (Family(lambda: Skein(256, 256), lambda: Skein(512, 256), lambda: Skein(1024, 256), lambda: Skein(512, 256, key=b'k')),        [('256.h(M1)', lambda o: o[0](M1)), ('512.h(M1)', lambda o: o[1](M1)), ('1024.h(M1)', lambda o: o[2](M1)), ('512k.h(M1)', lambda o: o[3](M1)), ('512.h(empty)', lambda o: o[1](M0))], None)
    K['Chacha/Salsa-family'] = (Family(lambda: Chacha(Bits(K16, bitorder=1), 8), lambda: Chacha(Bits(K32, bitorder=1), 12), lambda: Salsa20(Bits(K16, bitorder=1)), lambda: Chacha(Bits(IV16, bitorder=1), 8)),        [('c16r8.enc', lambda o: o[0].enc(V(), M1)), ('c32r12.enc', lambda o: o[1].enc(V(), M1)), ('s16.enc', lambda o: o[2].enc(V(), M1)), ('c16b.enc', lambda o: o[3].enc(V2(), M1)),
         ('c16r8.enc(M2)', lambda o: o[0].enc(V2(), M2))], None)
    K['Nilsimsa-family'] = (Family(lambda: Nilsimsa(53), lambda: Nilsimsa(17), lambda: Nilsimsa(99)),        [('53.h', lambda o: o[0](TEXT)), ('17.h', lambda o: o[1](TEXT)), ('99.h', lambda o: o[2](TEXT)), ('53.h(M1)', lambda o: o[0](M1))], None)
    K['TLSH-family'] = (Family(lambda: TLSH(128), lambda: TLSH(256, 4, 3), lambda: TLSH(48, 8, 1)),        [('128.h', lambda o: o[0](TEXT2, True)), ('256.h', lambda o: o[1](TEXT2, True)), ('48.h', lambda o: o[2](TEXT2, True)), ('128.h(short)', lambda o: o[0](M1))], None)
    K['SHA-family'] = (Family(lambda: SHA2(256), lambda: SHA1(1), lambda: SHA2(224), lambda: SHA2(512), lambda: SHA2(512, 256), lambda: MD5()),        [('sha256.h', lambda o: o[0](M2)), ('sha1.h', lambda o: o[1](M2)), ('sha224.h', lambda o: o[2](M2)), ('sha512.h', lambda o: o[3](M2)), ('sha512/256.h', lambda o: o[4](M2)), ('md5.h', lambda o: o[5](M2)),
         ('~sha256.update', lambda o: (o[0].update(bytes(64)), None)[1]), ('~sha1.initstate+update', lambda o: (o[1].initstate(), o[1].update(bytes(64)), None)[2])], None)
    K['Keccak-family'] = (Family(lambda: Keccak(b=1600, c=512, len=256), lambda: Keccak(b=200, r=40, len=160), lambda: SHA3(256), lambda: Keccak(b=400, r=144, len=64)),        [('1600.h', lambda o: o[0](M1)), ('200.h', lambda o: o[1](M1)), ('sha3.h', lambda o: o[2](M1)), ('400.h', lambda o: o[3](M1)), ('1600.h(r=576)', lambda o: o[0](M1, r=576))], None)
    K['Blake-family'] = (Family(lambda: Blake(256), lambda: Blake(224), lambda: Blake(512), lambda: Blake2(256), lambda: Blake2(512)),        [('b256.h', lambda o: o[0](M2)), ('b224.h', lambda o: o[1](M2)), ('b512.h', lambda o: o[2](M2)), ('b2s.h', lambda o: o[3](M2)), ('b2b.h', lambda o: o[4](M2)), ('b2s.h(outlen=7)', lambda o: o[3](M2, outlen=7))], None)
    def md6r(d, key, L):
        h = MD6(d, key, L); h.rounds = 2; return h
    K['MD6-family'] = (Family(lambda: md6r(256, b'', 64), lambda: md6r(128, b'key', 0), lambda: md6r(512, b'', 1)), [('256.h', lambda o: o[0](M2)), ('128k.h', lambda o: o[1](M2)), ('512.h', lambda o: o[2](M3 + M3)), ('256.h(bitlen)', lambda o: o[0](M1, 77))], None)
    K['HMAC-family (shared hash object)'] = (lambda: (lambda h: [HMAC(h, b'k1'), HMAC(h, M2), HMAC(SHA2(256), b'k1')])(SHA2(256)),
        [('mac1', lambda o: o[0](M1)), ('mac2', lambda o: o[1](M1)), ('mac3', lambda o: o[2](M1)), ('mac1(empty)', lambda o: o[0](M0))], None)
    K['mode-family (shared cipher object)'] = (lambda: (lambda c: [ECB(c), CBC(c, IV16), CTR(c, IV16), CTS_ECB(c)])(AES(K16)),
        [('ecb.enc', lambda o: o[0].enc(M1)), ('cbc.enc', lambda o: o[1].enc(M1)), ('ctr.enc', lambda o: o[2].enc(M1)), ('cts.enc', lambda o: o[3].enc(M1)), ('ecb.dec(enc)', lambda o: o[0].dec(o[0].enc(M2))),
         ('cbc.enc(int)!', lambda o: o[1].enc(5))], None)
    # objects built from buffers the caller still owns (bytearray keys, a Bits key, a Bits block): the caller wiping or reusing
    # its buffers between two calls is a history like any other, and the library does not change them either
    def mk_owned():
        bufs = [bytearray(b'K' * 64), bytearray(b'k' * 20), bytearray(b'md6 key'), bytearray(b'skein key'), Bits(K16), Bits(K16, bitorder=1)]
        return [HMAC(SHA2(256), bufs[0]), HMAC(SHA2(256), bufs[1]), md6r(256, bufs[2], 1), Skein(256, 256, key=bufs[3]), AES(bufs[4]), Serpent(bufs[5]), DES(K8), Chacha(Bits(K16, bitorder=1), 8), bufs]
    def wipe(o):
        # (Skein reads its key attribute at every call, by reference, like DES reads K: its buffer is the object's configuration
        #  and is left alone here; HMAC, MD6, AES and Serpent take their key at construction)
        for b in o[-1][:3] + o[-1][4:]:
            if isinstance(b, bytearray):
                for i in range(len(b)): b[i] = 0
                b += b'zz'
            else:
                b.ival = 0
    def stepped_nonce(o):
        v = Bits(IV16[:8], bitorder=1)
        a = o[7].enc(v, M1)
        v.ival = v.ival + 1            # the caller's message counter, kept in one Bits object
        return (a, o[7].enc(v, M1))
    def des_bits_block(o):
        blk = Bits(IV16[:8], bitorder=1)
        c1 = o[6].enc(blk); c2 = o[6].enc(blk)
        return (c1, c2, blk.ival, blk.size)
    B16 = bytes(range(65, 81))
    K['caller-owned buffers'] = (mk_owned, [('mac(key=bytearray of one block)', lambda o: o[0](M1)), ('mac(key=short bytearray)', lambda o: o[1](M1)), ('md6(key=bytearray)', lambda o: o[2](M1)),
                                            ('skein(key=bytearray)', lambda o: o[3](M1)), ('aes(Bits key).enc', lambda o: o[4].enc(B16)), ('aes(Bits key).dec', lambda o: o[4].dec(B16)),
                                            ('serpent(Bits key).enc', lambda o: o[5].enc(B16)), ('des.enc(Bits block) twice', des_bits_block), ('chacha.enc with one nonce object stepped in place', stepped_nonce),
                                            ('~the caller wipes and grows its key buffers', lambda o: wipe(o))], None)
    return K

def _copies(o):
    """perturbation present in every alphabet: the object is shallow-copied, deep-copied and pickled (whatever of these it
    supports); the original must answer afterwards like a fresh object"""
    import copy, pickle
    for f in (copy.copy, copy.deepcopy, lambda x: pickle.loads(pickle.dumps(x))):
        try:
            f(o)
        except CaseTimeout:
            raise
        except Exception:
            pass
    return None

_K = [None]
def K():
    if _K[0] is None:
        ks = kinds()
        _K[0] = {n: (v[0], list(v[1]) + [('~copy, deep-copy and pickle the object', _copies)], v[2]) for n, v in ks.items()}
    return _K[0]

def kind_names():
    return ['SHA1', 'SHA0', 'SHA2-256', 'SHA2-512/224', 'MD4', 'MD5', 'SHA3-256', 'Keccak', 'Keccak-200', 'MD6', 'MD6-default', 'MD6-sequential', 'Blake256', 'Blake512', 'Blake2b', 'Blake2s',
            'Skein256', 'Skein512-mac-tree', 'HMAC-SHA256', 'HMAC-MD5-longkey', 'TLSH128', 'TLSH48-3', 'Nilsimsa', 'AES128', 'AES256', 'DES', 'TDEA', 'Serpent',
            'Threefish256', 'ECB-AES', 'CBC-AES', 'CBC-DES-X923', 'ECB-TDEA', 'ECB-AES-nopadding', 'CTR-AES', 'CTR-AES-wrapping-counter', 'CTS_ECB-AES', 'CTS_CBC-DES', 'Salsa20',
            'Chacha-128-12', 'crc (functions)', 'knapsack (functions)', 'AES-family (integer-equal keys)', 'Threefish-family', 'Skein-family (same No)',
            'Chacha/Salsa-family', 'Nilsimsa-family', 'TLSH-family', 'SHA-family', 'Keccak-family', 'Blake-family', 'MD6-family', 'HMAC-family (shared hash object)',
            'mode-family (shared cipher object)', 'caller-owned buffers']

ALPHA = {'SHA1': 7, 'SHA0': 4, 'SHA2-256': 7, 'SHA2-512/224': 7, 'MD4': 7, 'MD5': 7, 'SHA3-256': 4, 'Keccak': 8, 'Keccak-200': 4, 'MD6': 5, 'MD6-default': 4, 'MD6-sequential': 4, 'Blake256': 7, 'Blake512': 5,
         'Blake2b': 9, 'Blake2s': 9, 'Skein256': 5, 'Skein512-mac-tree': 4, 'HMAC-SHA256': 5, 'HMAC-MD5-longkey': 3, 'TLSH128': 9, 'TLSH48-3': 5, 'Nilsimsa': 6,
         'AES128': 5, 'AES256': 3, 'DES': 5, 'TDEA': 4, 'Serpent': 4, 'Threefish256': 5, 'ECB-AES': 7, 'CBC-AES': 7, 'CBC-DES-X923': 7, 'ECB-TDEA': 7,
         'ECB-AES-nopadding': 4, 'CTR-AES': 5, 'CTR-AES-wrapping-counter': 4, 'CTS_ECB-AES': 5, 'CTS_CBC-DES': 4, 'Salsa20': 7, 'Chacha-128-12': 5, 'crc (functions)': 9, 'knapsack (functions)': 5, 'AES-family (integer-equal keys)': 5, 'Threefish-family': 6, 'Skein-family (same No)': 5,
         'Chacha/Salsa-family': 5, 'Nilsimsa-family': 4, 'TLSH-family': 4, 'SHA-family': 8, 'Keccak-family': 5, 'Blake-family': 6, 'MD6-family': 4,
         'HMAC-family (shared hash object)': 4, 'mode-family (shared cipher object)': 6, 'caller-owned buffers': 10}

ALPHA = {k: v + 1 for k, v in ALPHA.items()}          # + the copy perturbation appended by K()

def selftest():
    ks = K()
    assert list(ks) == kind_names() or set(ks) == set(kind_names())
    for n in kind_names():
        assert len(ks[n][1]) == ALPHA[n], (n, len(ks[n][1]))
    return '%d object kinds, %d alphabet calls' % (len(ks), sum(ALPHA.values()))

def cases(tier, rng):
    for kind in kind_names():
        a = ALPHA[kind]
        maxlen = 2 if tier == 'quick' else 3
        for L in range(1, maxlen + 1):
            for seq in itertools.product(range(a), repeat=L):
                yield {'k': 'seq', 'kind': kind, 'seq': list(seq)}
        n3 = 30 if tier == 'quick' else 0
        for j in range(n3):
            yield {'k': 'seq', 'kind': kind, 'seq': [rng.randrange(a) for _ in range(3)]}
        for j in range(6 if tier == 'quick' else 60):
            yield {'k': 'seq', 'kind': kind, 'seq': [rng.randrange(a) for _ in range(rng.randrange(4, 11))]}
        for j in range(8 if tier == 'quick' else 80):
            yield {'k': 'interleave', 'kind': kind, 'n': 3 + j % 6, 'j': j}
        for c in range(a):
            yield {'k': 'fault', 'kind': kind, 'call': c, 'points': 5 if tier == 'quick' else 150}

_fresh = {}
def fresh(kind, ci):
    """the oracle: result of alphabet call ci on a freshly constructed object *in a pristine process* (computed by prepare()
    before the shards start, so that state poisoned inside a worker cannot also poison the expected value)"""
    key = (kind, ci)
    if not _fresh and os.environ.get('VMON_PREP') and os.path.exists(os.environ['VMON_PREP']):
        for k2, v in json.load(open(os.environ['VMON_PREP'])).items():
            kk, cc = k2.rsplit('#', 1)
            _fresh[(kk, int(cc))] = decode(v)
    if key not in _fresh:
        _fresh[key] = decode(pristine(kind, ci))
    return _fresh[key]

def encode(x):
    if isinstance(x, (bytes, bytearray)): return {'b': bytes(x).hex()}
    if isinstance(x, Exc): return {'e': x.name}
    if isinstance(x, (tuple, list)): return {'l': [encode(y) for y in x]}
    if isinstance(x, (int, str, bool, float)) or x is None: return x
    return {'r': repr(x)[:80]}

def decode(x):
    if isinstance(x, dict):
        if 'b' in x: return bytes.fromhex(x['b'])
        if 'e' in x: return Exc.named(x['e'])
        if 'l' in x: return tuple(decode(y) for y in x['l'])
        return x['r']
    return x

def pristine(kind, ci):
    """run one alphabet call on a fresh object in a brand-new interpreter"""
    import subprocess
    r = subprocess.run([sys.executable, '-B', '-m', 'vmon.props.c10', '--fresh', kind, str(ci)], capture_output=True, text=True, timeout=600)
    return json.loads(r.stdout.strip().splitlines()[-1])

def prepare(tmp, env, py, here):
    """called once by the parent before the shards start: every (kind, call) evaluated in its own pristine process"""
    import subprocess
    from concurrent.futures import ThreadPoolExecutor
    jobs = [(k, c) for k in kind_names() for c in range(ALPHA[k])]
    def one(j):
        r = subprocess.run([py, '-B', '-m', 'vmon.props.c10', '--fresh', j[0], str(j[1])], capture_output=True, text=True, timeout=900, env=env, cwd=here)
        try:
            return '%s#%d' % j, json.loads(r.stdout.strip().splitlines()[-1])
        except Exception:
            return '%s#%d' % j, {'e': 'PristineProcessFailed'}
    with ThreadPoolExecutor(16) as ex:
        res = dict(ex.map(one, jobs))
    path = os.path.join(tmp, 'c10-fresh.json')
    json.dump(res, open(path, 'w'))
    return path

def judged(label):
    """calls labelled '~' are explicit streaming calls (history-dependent by contract): they only perturb the object"""
    return not label.startswith('~')

def same(a, b):
    if isinstance(a, Exc) or isinstance(b, Exc):
        return isinstance(a, Exc) and isinstance(b, Exc) and a.name == b.name
    return a == b

def s3(ctx, base, det):
    """attribute a change of crysp's shared state to the call that made it (diagnostic note only: the verdict is the
    harness's S3 probe + re-validation after every case, see vmon/runner.py)"""
    now = sanitize.global_state()
    ch = sanitize.diff_state(base[0], now)
    ctx.mon['S3-attribution-probes'] += 1
    if ch:
        ctx.notes['shared state changed by %s / %s: %s' % (det.get('kind'), det.get('call') or det.get('then'), ','.join(ch)[:200])] += 1
        base[0] = now

CONSTS = None
def args_unchanged(ctx, det):
    ok = (M1 == bytes(range(1, 41)) and len(M2) == 150 and K16 == bytes(range(16, 32)) and IV16 == bytes(range(100, 116)))
    ctx.check('arguments-unchanged', ok, 'a shared argument buffer was modified', 'unchanged', **det)

def run(case, ctx, rng):
    kind = case['kind']
    new, calls, single = K()[kind]
    k = case['k']
    base = [sanitize.global_state()]
    if k == 'seq':
        seq = case['seq']
        ctx.cls((kind, 'seq', len(seq), tuple(seq) if len(seq) <= 3 else 'long'))
        ctx.state('call sequences', (kind, tuple(seq)))
        o = new()
        for i, ci in enumerate(seq):
            got = norm(call(lambda: calls[ci][1](o)))
            det = dict(kind=kind, history=[calls[c][0] for c in seq[:i]], call=calls[ci][0])
            if judged(calls[ci][0]):
                ctx.check('history:result==fresh', same(got, fresh(kind, ci)), got, fresh(kind, ci), **det)
            s3(ctx, base, det)
        args_unchanged(ctx, dict(kind=kind))
    elif k == 'interleave':
        ctx.cls((kind, 'interleave', case['n'], case['j'] % 4))
        objs = [new(), new()] + ([single()] if single else [])
        hist = []
        for i in range(case['n']):
            oi = rng.randrange(len(objs)); ci = rng.randrange(len(calls))
            got = norm(call(lambda: calls[ci][1](objs[oi])))
            det = dict(kind=kind, history=list(hist), call=calls[ci][0], on=['A', 'B', 'singleton'][oi])
            hist.append('%s.%s' % (['A', 'B', 'S'][oi], calls[ci][0]))
            if judged(calls[ci][0]):
                # (the shared module-level instance is configured like a fresh object of this kind)
                ctx.check('interleaved:result==fresh', same(got, fresh(kind, ci)), got, fresh(kind, ci), **det)
            s3(ctx, base, det)
        ctx.state('interleavings', (kind, tuple(hist)))
    elif k == 'fault':
        ci = case['call']
        ctx.cls((kind, 'fault', ci))
        if calls[ci][0].startswith('@'):
            return            # a composite call that re-configures the object and restores it: interrupting it legitimately leaves the new configuration
        # how many crysp lines does the call execute on a fresh object?
        _, N, _ = sanitize.run_counting(lambda: calls[ci][1](new()))
        if N == 0:
            return
        # the work of one injection point is half the faulted call plus every judged follow-up call; the number of points is
        # bounded by a fixed budget of executed lines (deterministic, so that a witness replays), never by the clock
        if kind not in _LINES:
            _LINES[kind] = [sanitize.run_counting(lambda cj=cj: calls[cj][1](new()))[1] if judged(calls[cj][0]) else 0 for cj in range(len(calls))]
        per_point = N // 2 + sum(_LINES[kind]) + 1
        npts = max(3, min(case['points'], N, LINE_BUDGET // per_point))
        ctx.notes['injection points requested'] += min(case['points'], N); ctx.notes['injection points within the line budget'] += npts
        pts = sorted(set([1, N] + [1 + (N - 1) * j // max(1, npts - 1) for j in range(npts)])) if npts < N else list(range(1, N + 1))
        if npts < N:
            pts = sorted(set(pts + [rng.randrange(1, N + 1) for _ in range(npts)]))[:max(npts, 2) + npts]
        for kpt in pts:
            for cj in range(len(calls)):
                if not judged(calls[cj][0]):
                    continue
                o = new()
                r, n, where = sanitize.run_with_fault(lambda: calls[ci][1](o), kpt)
                if isinstance(r, CaseTimeout):
                    raise r
                if where is None:
                    continue                  # the call ended (or raised by itself) before reaching the point
                ctx.state('injection points', where)
                got = norm(call(lambda: calls[cj][1](o)))
                det = dict(kind=kind, faulted_call=calls[ci][0], fault_at='%s:%s:%d' % where, then=calls[cj][0])
                ctx.check('after-fault:result==fresh', same(got, fresh(kind, cj)), got, fresh(kind, cj), **det)
                s3(ctx, base, det)
                if single and cj == 0:
                    # the same fault on the shared singleton must not poison later users either
                    s = single()
                    sanitize.run_with_fault(lambda: calls[ci][1](s), kpt)
                    got = norm(call(lambda: calls[0][1](s)))
                    ctx.check('after-fault:result==fresh', same(got, fresh(kind, 0)), got, fresh(kind, 0), singleton=True, **det)
                    s3(ctx, base, det)
        for nk, nv in list(sanitize.FP_SKIPPED.items()):
            ctx.notes[nk] += nv
        sanitize.FP_SKIPPED.clear()

def classify(case, fail):
    return None


if __name__ == '__main__':
    if len(sys.argv) >= 4 and sys.argv[1] == '--fresh':
        kind, ci = sys.argv[2], int(sys.argv[3])
        new, calls, _ = K()[kind]
        make = new.lazy if isinstance(new, Family) else new
        print(json.dumps(encode(norm(call(lambda: calls[ci][1](make()))))))
