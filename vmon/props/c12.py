"""C12  Skein hash, MAC and tree hash equal the Skein 1.3 specification."""
from vmon.core import call, is_exc, pattern
from vmon.refs import skein as rs

ID = 'C12'
RULE = ('class = (Nb, No class in {8,Nb-8,Nb,Nb+8,2Nb,4Nb}, |M| mod Nb/8, floor(8|M|/Nb) in 0..4, L mod 8 passed explicitly, key class in '
        '{absent,empty,short,one block,longer}, optional-argument subset, tree (Yl,Yf,Ym) in 1..3 x 1..3 x 2..4 with 0..40 leaf blocks); '
        'every Threefish call is recorded through a recording subclass and the tweak sequence is checked offline against the '
        'specification (First/Final/BitPad/Position/type/level per block); UBI start positions near 2^64; oracle = own Skein 1.3 reference')
ASSUMPTIONS = ['own Threefish/UBI/Skein reference incl. tree hashing (self-tested on 5 Threefish KATs and 8 Skein vectors)',
               'tree hashing is judged on byte messages (crysp takes no bit length in tree mode)']
ANCHORS = [('skein.py', 'Skein._initstate'), ('skein.py', 'UBI.iterblocks'), ('skein.py', 'UBI.__call__'), ('skein.py', 'Skein.output'),
           ('skein.py', 'Skein._treehash'), ('skein.py', 'Skein.update'), ('skein.py', 'Tweak.Position'), ('skein.py', 'Tweak.Type'),
           ('skein.py', 'Tweak.First'), ('skein.py', 'Tweak.Final'), ('skein.py', 'Tweak.BitPad'), ('skein.py', 'Tweak.TreeLevel')]
REQUIRED = ['siblings:skein==spec', 'skein==spec', 'output-length', 'tweak-trace==spec', 'tweak-grammar', 'tree==spec', 'ubi-position-carry==spec']
NSHARDS = 14
SAN = {'quick': (2, 60), 'thorough': (2, 60)}

def selftest():
    return rs.selftest()

def cases(tier, rng):
    for Nb in (256, 512, 1024):
        nb = Nb // 8
        for Noc in ('8', 'Nb-8', 'Nb', 'Nb+8', '2Nb', '4Nb', '24', 'Nb+16'):
            for ml in (0, 1, nb - 1, nb, nb + 1, 2 * nb, 2 * nb + 7, 3 * nb, 4 * nb, 4 * nb + 1):
                if tier == 'quick' and Noc in ('24', 'Nb+16', '4Nb') and ml not in (0, 1, nb, 2 * nb + 7):
                    continue
                yield {'k': 'hash', 'Nb': Nb, 'Noc': Noc, 'ml': ml, 'L': None, 'keyc': 'absent', 'opt': ''}
        for ml in (1, 2, nb - 1, nb, nb + 1, 2 * nb, 3 * nb + 1):
            for r in range(0, 8):
                for sur in (0, 1):
                    yield {'k': 'hash', 'Nb': Nb, 'Noc': 'Nb', 'ml': ml + sur, 'L': 8 * ml - r, 'keyc': 'absent', 'opt': ''}
        # the customary output sizes of every state size (the ones implementations ship precomputed initial values for)
        for No in (128, 160, 224, 256, 384, 512, 1024):
            for ml in (0, 3, nb + 1):
                yield {'k': 'hash', 'Nb': Nb, 'Noc': 'std%d' % No, 'ml': ml, 'L': None, 'keyc': 'absent', 'opt': ''}
        # data where word additions hit all-ones / zero / carries (plain hashing starts from a zero chaining value)
        for pat in ('ones', 'zero', 'xwords', 'x7f', 'x80'):
            for ml in (nb, nb + 5, 3 * nb):
                yield {'k': 'hash', 'Nb': Nb, 'Noc': 'Nb', 'ml': ml, 'L': None, 'keyc': ['absent', 'short'][ml % 2], 'opt': '', 'pat': pat}
        for ml in (4095, 4096, 4099, 65536, 65539):          # long inputs
            yield {'k': 'hash', 'Nb': Nb, 'Noc': 'Nb', 'ml': ml, 'L': None, 'keyc': 'short' if ml % 2 else 'absent', 'opt': ''}
        # bit lengths far shorter than the buffer, including L = 0 with a non-empty buffer (the quantifier is 0 <= L <= 8|M|)
        for ml in (1, 5, nb, nb + 1, 3 * nb):
            for L in sorted({0, 1, 7, 8, 9, 8 * nb, 8 * nb + 1} | {8 * ml - 8}):
                if 0 <= L <= 8 * ml:
                    yield {'k': 'hash', 'Nb': Nb, 'Noc': 'Nb', 'ml': ml, 'L': L, 'keyc': 'absent' if L else 'short', 'opt': ''}
        for keyc in ('empty', 'short', 'block-1', 'block', 'block+1', 'longer'):
            for ml in (0, 1, nb, 2 * nb + 3):
                for Noc in ('Nb', 'Nb+8', '8'):
                    yield {'k': 'hash', 'Nb': Nb, 'Noc': Noc, 'ml': ml, 'L': None if ml % 2 == 0 else 8 * ml - 3, 'keyc': keyc, 'opt': ''}
        opts = ['prs', 'PK', 'kdf', 'nonce', 'prs+nonce', 'PK+kdf', 'prs+PK+kdf+nonce', 'key+prs+PK+kdf+nonce', 'key+nonce', 'empty-strings']
        for opt in opts:
            for ml in (0, 5, nb + 1):
                yield {'k': 'hash', 'Nb': Nb, 'Noc': ['Nb', '2Nb', '8'][ml % 3], 'ml': ml, 'L': None, 'keyc': 'short' if 'key' in opt else 'absent', 'opt': opt}
        for Yl in (1, 2, 3):
            for Yf in (1, 2, 3):
                for Ym in (2, 3, 4):
                    leafs = [0, 1, 2, 3, 5, 9] if tier == 'quick' else list(range(0, 41))
                    for nl in leafs:
                        if tier == 'quick' and (Yl + Yf + Ym + nl) % 2 and nl not in (0, 1):
                            continue
                        yield {'k': 'tree', 'Nb': Nb, 'Y': [Yl, Yf, Ym], 'nl': nl, 'extra': [0, 1, nb - 1][(nl + Yl) % 3], 'keyc': 'short' if nl % 4 == 3 else 'absent'}
        for j in range(4 if tier == 'quick' else 30):
            yield {'k': 'siblings', 'Nb': Nb, 'j': j}
        for kk in (1, nb, nb + 1, 2 * nb, 3 * nb):
            for ml in (0, 1, nb, 2 * nb + 1, 3 * nb):
                yield {'k': 'ubi', 'Nb': Nb, 'pos': (1 << 64) - kk, 'ml': ml, 'L': None if ml % 2 == 0 else 8 * ml - 5}
        for pos in ((1 << 32) - nb, (1 << 95), 0):
            yield {'k': 'ubi', 'Nb': Nb, 'pos': pos, 'ml': 2 * nb + 1, 'L': None}
        # carries out of every word of the 96-bit position field, also when higher bits are already set
        for base in (1 << 65, 3 << 64, 1 << 66, (1 << 66) + (1 << 64), 1 << 80, 1 << 95, (1 << 96) - (1 << 64), 1 << 32, 1 << 33, 7 << 64):
            for kk in (1, nb, 2 * nb + 1):
                yield {'k': 'ubi', 'Nb': Nb, 'pos': base - kk, 'ml': 3 * nb + 1, 'L': None}

def noval(c, Nb):
    if c.startswith('std'): return int(c[3:])
    return {'8': 8, 'Nb-8': Nb - 8, 'Nb': Nb, 'Nb+8': Nb + 8, '2Nb': 2 * Nb, '4Nb': 4 * Nb, '24': 24, 'Nb+16': Nb + 16}[c]

def keyof(rng, c, nb):
    return {'absent': None, 'empty': b'', 'short': rng.randbytes(5), 'block-1': rng.randbytes(nb - 1), 'block': rng.randbytes(nb), 'block+1': rng.randbytes(nb + 1),
            'longer': rng.randbytes(2 * nb + 9)}[c]

class Recorder(object):
    """replaces crysp.skein.Threefish for the duration of one call and logs (tweak) of every block encryption"""
    def __enter__(self):
        import crysp.skein as SK
        self.SK = SK; self.orig = SK.Threefish; log = self.log = []
        class RecThreefish(self.orig):
            def __init__(s, sK, sT):
                log.append(int.from_bytes(bytes(sT), 'little'))
                super().__init__(sK, sT)
        SK.Threefish = RecThreefish
        return self
    def __exit__(self, *a):
        self.SK.Threefish = self.orig

def trace_ok(obs, exp):
    """the observed tweak sequence equals the specification's, except that whole *initialisation* stages (key, cfg, prs, PK, kdf,
    nonce: types below 'msg') may be absent -- an implementation may legitimately start from a precomputed / cached chaining
    value, as the Skein reference code does with its IV tables.  Message and output stages must match block for block."""
    def stages(log):
        out = []
        for tw in log:
            t = (tw >> 120) & 0x3f
            if out and out[-1][0] == t and not (tw >> 126) & 1:
                out[-1][1].append(tw)
            else:
                out.append((t, [tw]))
        return out
    so, se = stages(obs), stages(exp)
    if [s for s in so if s[0] >= 48] != [s for s in se if s[0] >= 48]:
        return False
    io = [s for s in so if s[0] < 48]; ie = [s for s in se if s[0] < 48]
    j = 0
    for s in io:                               # every observed init stage must be one of the expected ones, in order
        while j < len(ie) and ie[j] != s:
            j += 1
        if j == len(ie):
            return False
        j += 1
    return True

def decode(tw):
    return {'pos': tw & ((1 << 96) - 1), 'level': (tw >> 112) & 0x7f, 'bitpad': (tw >> 119) & 1, 'type': (tw >> 120) & 0x3f, 'first': (tw >> 126) & 1, 'final': (tw >> 127) & 1}

def grammar(ctx, log, nb, det):
    """specification grammar of a tweak sequence, independent of the reference run"""
    ok = True; why = ''
    order = []
    i = 0
    while i < len(log):
        t = decode(log[i])
        if not t['first']: ok, why = False, 'UBI invocation does not start with First (block %d)' % i; break
        j = i
        prev = None
        while True:
            u = decode(log[j])
            if (u['type'], u['level']) != (t['type'], t['level']): ok, why = False, 'type/level changes inside one UBI (block %d)' % j; break
            if j > i and u['first']: ok, why = False, 'First on a non-first block (block %d)' % j; break
            if prev is not None and not (u['pos'] > prev['pos'] or (u['final'] and u['pos'] >= prev['pos'])): ok, why = False, 'Position not increasing (block %d)' % j; break
            if u['bitpad'] and not u['final']: ok, why = False, 'BitPad without Final (block %d)' % j; break
            if not u['final'] and (u['pos'] - (t['pos'] if j == i else prev['pos'])) % nb and j > i: ok, why = False, 'non-final block not a whole block (block %d)' % j; break
            prev = u
            if u['final']: break
            j += 1
            if j >= len(log): ok, why = False, 'UBI invocation never reaches Final'; break
        if not ok: break
        order.append(t['type'])
        ctx.state('tweak (type,level,first,final,bitpad)', (t['type'], t['level']))
        i = j + 1
    if ok:
        # stage order key < cfg < prs < PK < kdf < nonce < msg* < out*, every output block with Position 8
        if order != sorted(order): ok, why = False, 'stage order %s' % order
        for tw in log:
            u = decode(tw)
            if u['type'] == 63 and not (u['pos'] == 8 and u['first'] and u['final']): ok, why = False, 'output block tweak %x' % tw
            ctx.state('tweak (type,level,first,final,bitpad)', (u['type'], u['level'], u['first'], u['final'], u['bitpad']))
    ctx.check('tweak-grammar', ok, why, 'Skein 1.3 tweak grammar', **det)

def run(case, ctx, rng):
    from crysp.skein import Skein, UBI, Tweak
    from crysp.threefish import Threefish
    k = case['k']; Nb = case['Nb']; nb = Nb // 8
    if k == 'hash':
        No = noval(case['Noc'], Nb)
        M = pattern(rng, case['ml'], case.get('pat', 'rand')); L = case['L']
        key = keyof(rng, case['keyc'], nb)
        kw = {}
        opt = case['opt']
        if opt == 'empty-strings':
            kw = dict(prs=b'', PK=b'', kdf=b'', nonce=b'')
        else:
            for name in ('prs', 'PK', 'kdf', 'nonce'):
                if name in opt.split('+'):
                    kw[name] = rng.randbytes(rng.choice([1, 7, nb, nb + 3]))
        LL = 8 * len(M) if L is None else L
        ctx.cls((Nb, case['Noc'], case['ml'] % nb, min(8 * case['ml'] // Nb, 4), LL % 8, L is not None, case['keyc'], opt))
        det = dict(Nb=Nb, No=No, M=M, L=L, key=key, opt={a: b.hex() for a, b in kw.items()})
        rs.TRACE = []
        want = rs.skein(Nb, No, M, L, key=key, **kw)
        wtrace, rs.TRACE = rs.TRACE, None
        with Recorder() as rec:
            ckw = dict(kw)
            if key is not None: ckw['key'] = key
            got = call(lambda: Skein(Nb, No, **ckw)(M, L) if L is not None else Skein(Nb, No, **ckw)(M))
        ctx.eq('skein==spec', got, want, **det)
        if not is_exc(got):
            ctx.eq('output-length', len(got), (No + 7) // 8, **det)
            ctx.check('tweak-trace==spec', trace_ok(rec.log, wtrace), [hex(x) for x in rec.log], [hex(x) for x in wtrace], **det)
            grammar(ctx, rec.log, nb, det)
        # caller-owned buffers: message, key and optional strings given as bytearrays; one object hashing twice
        if L is None and (case['ml'] % 3 == 0 or key is not None):
            from vmon.core import mutable_arg
            bkw = {a: bytearray(b) for a, b in ckw.items()}
            ob = call(lambda: Skein(Nb, No, **bkw))
            if not is_exc(ob):
                mutable_arg(ctx, 'skein==spec', (lambda buf: ob(buf)), M, want, one_object=True, **det)
                ctx.eq('skein==spec', {a: bytes(b) for a, b in bkw.items()}, {a: bytes(b) for a, b in ckw.items()}, arg='key / option buffers left unchanged', **det)
    elif k == 'tree':
        Yl, Yf, Ym = case['Y']
        Nl = nb << Yl
        n = case['nl'] * Nl + (case['extra'] if case['nl'] else 0)
        if case['nl'] and case['extra']:
            n = (case['nl'] - 1) * Nl + case['extra']
        M = rng.randbytes(n)
        key = keyof(rng, case['keyc'], nb)
        ctx.cls((Nb, 'tree', Yl, Yf, Ym, case['nl'], case['extra'] > 0, case['keyc']))
        det = dict(Nb=Nb, Y=case['Y'], n=n, key=key)
        rs.TRACE = []
        want = rs.skein(Nb, Nb, M, key=key, Yl=Yl, Yf=Yf, Ym=Ym)
        wtrace, rs.TRACE = rs.TRACE, None
        with Recorder() as rec:
            ckw = dict(Yl=Yl, Yf=Yf, Ym=Ym)
            if key is not None: ckw['key'] = key
            got = call(lambda: Skein(Nb, Nb, **ckw)(M))
        ctx.eq('tree==spec', got, want, **det)
        if not is_exc(got):
            ctx.check('tweak-trace==spec', trace_ok(rec.log, wtrace), [hex(x) for x in rec.log], [hex(x) for x in wtrace], **det)
        if case['nl'] % 2 == 0:
            from vmon.core import mutable_arg
            ot = call(lambda: Skein(Nb, Nb, **ckw))
            if not is_exc(ot):
                mutable_arg(ctx, 'tree==spec', (lambda buf: ot(buf)), M, want, one_object=True, **det)
    elif k == 'siblings':
        # Skein objects of different state sizes / keys but the same output length and configuration, alive together
        from vmon.core import siblings
        No = [256, 8, 24, 512][case['j'] % 4]
        ctx.cls((Nb, 'siblings', No))
        specs = []
        for t, N in enumerate(rng.sample([256, 512, 1024], 3) + [Nb]):
            M1 = rng.randbytes(rng.choice([0, 5, N // 8 + 1])); M2 = rng.randbytes(3)
            key = None if t != 2 else rng.randbytes(7)
            kw = {} if key is None else {'key': key}
            specs.append(('Skein(%d,%d%s)#%d' % (N, No, ',key' if key else '', t), (lambda N=N, kw=kw: Skein(N, No, **kw)),
                          [('h(M1)', (lambda o, M=M1: o(M)), rs.skein(N, No, M1, key=key)), ('h(M2,bitlen=13)', (lambda o, M=M2: o(M, 13)), rs.skein(N, No, M2, 13, key=key))]))
        siblings(ctx, rng, 'siblings:skein==spec', specs, late=specs.pop(), No=No)
    elif k == 'ubi':
        pos, ml, L = case['pos'], case['ml'], case['L']
        M = rng.randbytes(ml); G = rng.randbytes(nb)
        ctx.cls((Nb, 'ubi', pos.bit_length(), (-pos) % (1 << 32), ml % nb, min(ml // nb, 3), L is not None))
        det = dict(Nb=Nb, pos=pos, M=M, L=L, G=G)
        rs.TRACE = []
        want = rs.ubi(G, M, (rs.T_MSG << 120) + pos, L)
        wtrace, rs.TRACE = rs.TRACE, None
        with Recorder() as rec:
            got = call(lambda: UBI(self_tf(), G, Tweak(Position=pos, Type='msg'))(M, L) if L is not None else UBI(self_tf(), G, Tweak(Position=pos, Type='msg'))(M))
        ctx.eq('ubi-position-carry==spec', got, want, **det)
        if not is_exc(got):
            ctx.check('tweak-trace==spec', trace_ok(rec.log, wtrace), [hex(x) for x in rec.log], [hex(x) for x in wtrace], **det)

def self_tf():
    import crysp.skein as SK
    return SK.Threefish        # the recording subclass while a Recorder is active

def classify(case, fail):
    return None
