"""C04  Keccak sponge, SHA-3 and SHAKE equal FIPS 202 for every input and configuration."""
import hashlib
from vmon.core import mutable_arg, call, is_exc, pattern
from vmon.refs import keccak as rk

ID = 'C04'
RULE = ('class = (b, rate class, L mod r in {0,1,2,r-2,r-1,other}, floor(L/r) in 0..3, L mod 8, surplus bytes, output-length class, bit-order '
        'mode); rates: the standard ones, multiples of 8, non-multiples of 8, rates below 8, r=b-1, r=1536; SHA3/SHAKE: every byte length '
        '0..2*rate/8+2 and around each multiple of the rate up to 4 blocks; duplex: sequences of 1..6 calls on one object; oracle = bit-level '
        'Keccak-p reference sponge/duplex and hashlib for SHA3-n / SHAKE')
ASSUMPTIONS = ['hashlib sha3_*/shake_*', 'own bit-level Keccak reference (self-tested against hashlib and Keccak-team KATs incl. a small width)',
               'NIST mode = SHA-3 competition KAT convention (last partial byte holds its bits in the high positions)', 'output bits packed LSB-first (FIPS 202 B.1)']
ANCHORS = [('keccak.py', 'Keccak.iterblocks'), ('keccak.py', 'Keccak.__call__'), ('keccak.py', 'State.load'), ('keccak.py', 'State.dump'), ('keccak.py', 'Round'),
           ('keccak.py', 'rot'), ('keccak.py', 'Keccak.duplex'), ('keccak.py', 'Keccak.f'), ('sha.py', 'SHA3.__call__'), ('sha.py', 'SHAKE128'), ('sha.py', 'SHAKE256')]
REQUIRED = ['after-error:sponge==reference', 'after-error:duplex==reference', 'siblings:sponge==reference', 'sponge==reference', 'output-length', 'sha3==hashlib', 'shake==hashlib', 'duplex==reference', 'singleton==reference', 'pad-overflow-gets-extra-block']
NSHARDS = 14
SAN = {'quick': (2, 80), 'thorough': (2, 80)}
CASE_CPU_S = 300

def selftest():
    return rk.selftest()

def rates(b, tier):
    if b == 1600:
        rs = [576, 832, 1024, 1088, 1152, 1344, 1536, 1027, 8, 12, 1, 3, 7, 64, 1535]
        if tier == 'thorough': rs += [16, 40, 100, 513, 1000, 2, 5]
        return rs
    rs = {r for r in range(8, b, 8)} if b <= 100 else {8, 16, 40, b // 2 // 8 * 8, (b - 8) // 8 * 8}
    rs |= {1, 2, 7, 9, b - 1, b // 2 + 1, b - 2}
    if tier == 'quick' and b in (50, 100, 400, 800):
        rs = {8, 7, 1, b - 1, b // 2 // 8 * 8 or 8, b // 2 + 1}
    return sorted(r for r in rs if 0 < r < b and r <= 1536)

def lens(r, tier):
    s = set()
    for nb in range(0, 4):
        for d in (0, 1, 2, r - 2, r - 1, r // 2):
            L = nb * r + d
            if L >= 0: s.add(L)
    if tier == 'quick':
        s = {L for L in s if L // r < 3 or L % r in (0, r - 1)}
    return sorted(s)

def cases(tier, rng):
    for b in (25, 50, 100, 200, 400, 800, 1600):
        for r in rates(b, tier):
            for L in lens(r, tier):
                for mode in ('nist', 'native'):
                    if tier == 'quick' and b == 1600 and r > 8 and L > 2 * r and mode == 'native':
                        continue
                    sur = [0, 1, 3][(L + r) % 3]
                    dc = ['1', '7', '8', 'r-1', 'r', 'r+1', '2r+3'][(L + r + (mode == 'nist')) % 7]
                    yield {'k': 'sponge', 'b': b, 'r': r, 'L': L, 'mode': mode, 'sur': sur if L else 0, 'dc': dc}
            for j in range(2 if tier == 'quick' else 10):
                yield {'k': 'duplex', 'b': b, 'r': r, 'ncalls': 1 + (j + r) % 6}
    for b, r in ((1600, 1088), (200, 40), (25, 7), (400, 9), (1600, 1344)):
        for nbytes in (1, 2, r // 8 + 1, 2 * (r // 8) + 3):
            for mode in ('nist', 'native'):
                yield {'k': 'sponge', 'b': b, 'r': r, 'L': 0, 'mode': mode, 'sur': nbytes, 'dc': 'r', 'explicit0': True}
    # explicit L with L mod 8 in 1..7 and surplus bytes, NIST alignment of the last byte
    for b, r in ((1600, 1088), (1600, 1344), (200, 40), (400, 144), (1600, 1027)):
        for L in (list(range(1, 18)) + [r - 9, r - 3, r - 2, r - 1, r + 1, r + 5, 2 * r - 1, 2 * r + 7]):
            for sur in (0, 1, 3):
                yield {'k': 'sponge', 'b': b, 'r': r, 'L': L, 'mode': 'nist', 'sur': sur, 'dc': '8'}
                if sur == 0:
                    yield {'k': 'sponge', 'b': b, 'r': r, 'L': L, 'mode': 'native', 'sur': 1, 'dc': 'r'}
    for j in range(20 if tier == 'quick' else 150):
        yield {'k': 'siblings', 'j': j}
    for j in range(24 if tier == 'quick' else 200):
        yield {'k': 'after-error', 'j': j}
    for n in (224, 256, 384, 512):
        rb = (1600 - 2 * n) // 8
        ls = set(range(0, (2 * rb + 3) if tier == 'thorough' else 20)) | {rb - 2, rb - 1, rb, rb + 1, 2 * rb - 1, 2 * rb, 2 * rb + 1, 3 * rb - 1, 3 * rb, 4 * rb, 4 * rb + 1, 4095, 4096, 4099} | ({65539} if n == 256 else set())
        for l in sorted(ls):
            yield {'k': 'sha3', 'n': n, 'len': l, 'pat': ['rand', 'zero', 'ones'][l % 3]}
        for l in (0, 1, rb - 1, rb, 2 * rb + 1):
            yield {'k': 'singleton', 'n': n, 'len': l, 'L': None}
            yield {'k': 'singleton', 'n': n, 'len': l + 1, 'L': 8 * l + 3}
    for which, rb in ((128, 168), (256, 136)):
        ls = {0, 1, 2, rb - 2, rb - 1, rb, rb + 1, 2 * rb - 1, 2 * rb, 2 * rb + 1, 3 * rb, 4 * rb - 1, 4 * rb} | (set(range(0, 2 * rb + 3)) if tier == 'thorough' else set(range(0, 12)))
        for l in sorted(ls):
            for d in ((8, 8 * rb) if tier == 'quick' else (8, 16, 256, 8 * rb, 8 * rb + 8, 32 * rb + 8)):
                yield {'k': 'shake', 'which': which, 'len': l, 'd': d}
        for d in (8, 16, 8 * rb - 8, 8 * rb, 8 * rb + 8, 16 * rb, 32 * rb + 8):
            yield {'k': 'shake', 'which': which, 'len': 5, 'd': d}

def dval(dc, r):
    return {'1': 1, '7': 7, '8': 8, 'r-1': max(1, r - 1), 'r': r, 'r+1': r + 1, '2r+3': 2 * r + 3}[dc]

def lclass(L, r):
    m = L % r
    return m if m in (0, 1, 2, r - 2, r - 1) else 'other'

def run(case, ctx, rng):
    from crysp.keccak import Keccak
    k = case['k']
    if k == 'sponge':
        b, r, L, mode = case['b'], case['r'], case['L'], case['mode']
        d = dval(case['dc'], r)
        M = rng.randbytes((L + 7) // 8 + case['sur'])
        ctx.cls((b, r, lclass(L, r), min(L // r, 3), L % 8, case['sur'], case['dc'], mode, case.get('explicit0', False)))
        bits = rk.bytes2bits_nist(M, L) if mode == 'nist' else rk.bytes2bits_lsb(M, L)
        want = rk.bits2bytes(rk.sponge(b, r, bits, d))
        def f():
            h = Keccak(b=b, r=r, len=d)
            h.duplexing = (mode == 'native')
            if case.get('explicit0'):
                return h(M, bitlen=0)                    # L = 0 on a non-empty buffer: the digest of the empty message
            return h(M, bitlen=L) if L else h(M)        # otherwise L == 0 only with the empty message
        det = dict(b=b, r=r, L=L, d=d, mode=mode, M=M)
        got = call(f)
        ctx.eq('sponge==reference', got, want, **det)
        if L % r == r - 1:
            ctx.check('pad-overflow-gets-extra-block', not is_exc(got), got, 'a digest (the two pad bits spill into an extra block)', **det)
        if not is_exc(got):
            ctx.eq('output-length', len(got), (d + 7) // 8, **det)
        if L % 8 == 0 and (L // 8) % 3 == 0 and not case.get('explicit0'):
            def fb(buf):
                h = Keccak(b=b, r=r, len=d); h.duplexing = (mode == 'native')
                return h(buf, bitlen=L) if L else h(buf)
            mutable_arg(ctx, 'sponge==reference', fb, M, want, must_accept=False, **det)       # (the NIST bit-alignment path takes bytes only)
    elif k == 'siblings':
        from vmon.core import siblings
        from crysp.sha import SHA3
        import crysp.keccak as KM
        ctx.cls(('siblings', case['j'] % 5))
        specs = []
        for t, (b, r) in enumerate(rng.sample([(1600, 1088), (1600, 576), (200, 40), (400, 144), (800, 520), (100, 36), (50, 9), (25, 7), (1600, 1344)], 3)):
            d = rng.choice([8, r, r + 1, 64]); L = rng.choice([0, 3, r - 1, r, r + 5, 2 * r]); mode = rng.choice(['nist', 'native'])
            M = rng.randbytes((L + 7) // 8)
            bits = rk.bytes2bits_nist(M, L) if mode == 'nist' else rk.bytes2bits_lsb(M, L)
            want = rk.bits2bytes(rk.sponge(b, r, bits, d))
            def new(b=b, r=r, d=d, mode=mode):
                h = Keccak(b=b, r=r, len=d); h.duplexing = (mode == 'native'); return h
            M2 = rng.randbytes(2)
            bits2 = rk.bytes2bits_nist(M2, 16) if mode == 'nist' else rk.bytes2bits_lsb(M2, 16)
            specs.append(('Keccak[%d,%d,%s]' % (b, r, mode), new, [('h(M,L)', (lambda o, M=M, L=L: o(M, bitlen=L) if L else o(M)), want),
                                                                   ('h(M2)', (lambda o, M2=M2: o(M2)), rk.bits2bytes(rk.sponge(b, r, bits2, d)))]))
        n = rng.choice([224, 256, 384, 512]); X = rng.randbytes(rng.choice([0, 10, 150]))
        specs.append(('SHA3-%d' % n, (lambda n=n: SHA3(n)), [('h(X)', (lambda o, X=X: o(X)), hashlib.new('sha3_%d' % n, X).digest())]))
        n2 = rng.choice([224, 256, 384, 512]); Y = rng.randbytes(9)
        specs.append(('keccak_%d singleton' % n2, (lambda n2=n2: getattr(KM, 'keccak_%d' % n2)),
                      [('h(Y)', (lambda o, Y=Y: o(Y)), rk.bits2bytes(rk.sponge(1600, 1600 - 2 * n2, rk.bytes2bits_nist(Y, 72), n2)))]))
        siblings(ctx, rng, 'siblings:sponge==reference', specs, late=specs.pop(0))
    elif k == 'after-error':
        # one object: calls with a per-call rate, calls that are refused (also refused duplex inputs), then ordinary calls --
        # every accepted call must still equal the reference
        j = case['j']
        b, r = [(1600, 1088), (200, 40), (400, 144), (1600, 576), (800, 520), (1600, 1344)][j % 6]
        ctx.cls(('after-error', b, r, j % 4))
        if j % 2 == 0:
            d = [256, 64, 8, r + 3][j % 4]
            h = Keccak(b=b, r=r, len=d)
            mode = 'native' if j % 4 == 2 else 'nist'
            h.duplexing = (mode == 'native')
            def refd(M, L, rr):
                bits = rk.bytes2bits_nist(M, L) if mode == 'nist' else rk.bytes2bits_lsb(M, L)
                return rk.bits2bytes(rk.sponge(b, rr, bits, d))
            r2 = [8, r - 8, b - 16 if b - 16 <= 1536 else 1536][j % 3]
            M = rng.randbytes(9)
            steps = [('h(M,r=r2)', lambda: h(M, r=r2), refd(M, 72, r2)),
                     ('h(M,bitlen=too-big,r=r2)!', lambda: h(M, bitlen=500, r=r2), None),
                     ('h(M)', lambda: h(M), refd(M, 72, r)),
                     ('h(M,r=2000)!', lambda: h(M, r=2000), None),
                     ('h(M,bitlen=13)', lambda: h(M, bitlen=13), refd(M, 13, r)),
                     ('h(M,bitlen=too-big)!', lambda: h(M, bitlen=80), None),
                     ('h(empty)', lambda: h(b''), refd(b'', 0, r))]
            rng.shuffle(steps)
            hist = []
            for label, f, want in steps:
                got = call(f); hist.append(label)
                if want is None:
                    ctx.notes['after-error: perturbing call %s' % ('raised' if is_exc(got) else 'returned')] += 1      # out-of-domain call: only a perturbation
                else:
                    ctx.eq('after-error:sponge==reference', got, want, b=b, r=r, d=d, mode=mode, history=list(hist))
        else:
            if r < 12: r = 40
            h = Keccak(b=b, r=r)
            D = rk.Duplex(b, r)
            hist = []
            for i in range(5):
                if i in (1, 3):
                    # input longer than r-2 bits: refused, and the running state must not move
                    got = call(lambda: h.duplex(rng.randbytes((r + 7) // 8 + 1), bitlen=r - 1 if i == 1 else r + 5))
                    hist.append('duplex(too long)!')
                    ctx.notes['after-error: over-long duplex input %s' % ('raised' if is_exc(got) else 'returned')] += 1
                    if not is_exc(got):
                        break                  # the object accepted it: the reference duplex has no counterpart, stop this history
                    continue
                L = rng.randrange(0, r - 1); ol = rng.choice([8, r, 1])
                M = rng.randbytes((L + 7) // 8)
                want = rk.bits2bytes(D(rk.bytes2bits_lsb(M, L), ol))
                got = call(lambda: h.duplex(M, bitlen=L, outlen=ol))
                hist.append('duplex(%d bits)' % L)
                ctx.eq('after-error:duplex==reference', got, want, b=b, r=r, history=list(hist))
    elif k == 'duplex':
        b, r = case['b'], case['r']
        if r < 3:
            return
        ctx.cls((b, r, 'duplex', case['ncalls']))
        h = Keccak(b=b, r=r) if case['ncalls'] % 3 == 0 else Keccak(b=b, r=r, len=[8, 64, r + 8][case['ncalls'] % 3])
        D = rk.Duplex(b, r)
        hist = []
        for i in range(case['ncalls']):
            L = rng.choice([0, 1, 2, r - 2, r - 3, rng.randrange(0, r - 1)])
            L = max(0, min(L, r - 2))
            ol = rng.choice([1, 8, r, r - 1, rng.randrange(1, r + 1)])
            M = rng.randbytes((L + 7) // 8)
            want = rk.bits2bytes(D(rk.bytes2bits_lsb(M, L), ol))
            got = call(lambda: h.duplex(M, bitlen=L, outlen=ol))
            hist.append((L, ol))
            if not ctx.eq('duplex==reference', got, want, b=b, r=r, history=hist, M=M):
                break
            if (i + case['ncalls']) % 2 == 0 and r >= 8:
                # the same object used as a plain sponge between two duplex calls (also with a per-call rate, also refused):
                # the duplex session goes on as if nothing had happened, and the sponge output is the reference's
                Ms = rng.randbytes(rng.choice([0, 3, r // 8 + 1]))
                gs = call(lambda: h(Ms))
                hist.append('sponge call')
                if h.outlen:
                    ctx.eq('sponge==reference', gs, rk.bits2bytes(rk.sponge(b, r, rk.bytes2bits_nist(Ms, 8 * len(Ms)), h.outlen)), b=b, r=r, between='duplex calls', history=list(hist))
                call(lambda: h(Ms, bitlen=8 * len(Ms) + 9))
    elif k == 'sha3':
        from crysp.sha import SHA3
        n, l = case['n'], case['len']
        M = pattern(rng, l, case['pat'])
        ctx.cls(('sha3', n, l % ((1600 - 2 * n) // 8), min(l // ((1600 - 2 * n) // 8), 4)))
        got = call(lambda: SHA3(n)(M))
        ctx.eq('sha3==hashlib', got, hashlib.new('sha3_%d' % n, M).digest(), n=n, len=l, M=M)
        if l % 3 == 0:
            mutable_arg(ctx, 'sha3==hashlib', (lambda buf: SHA3(n)(buf)), M, hashlib.new('sha3_%d' % n, M).digest(), n=n, len=l)
        if not is_exc(got):
            ctx.eq('output-length', len(got), n // 8, n=n)
    elif k == 'shake':
        from crysp.sha import SHAKE128, SHAKE256
        which, l, d = case['which'], case['len'], case['d']
        M = rng.randbytes(l)
        rb = 168 if which == 128 else 136
        ctx.cls(('shake', which, l % rb, min(l // rb, 4), d))
        got = call(SHAKE128 if which == 128 else SHAKE256, M, d)
        ctx.eq('shake==hashlib', got, (hashlib.shake_128 if which == 128 else hashlib.shake_256)(M).digest(d // 8), which=which, len=l, d=d, M=M)
        mutable_arg(ctx, 'shake==hashlib', (lambda buf: (SHAKE128 if which == 128 else SHAKE256)(buf, d)), M, (hashlib.shake_128 if which == 128 else hashlib.shake_256)(M).digest(d // 8), which=which, len=l, d=d)
        # the two functions asked for the same output length one after the other, and SHA3 in between
        from crysp.sha import SHA3
        M2 = rng.randbytes(l + 1)
        got2 = call(SHAKE256 if which == 128 else SHAKE128, M2, d)
        ctx.eq('shake==hashlib', got2, (hashlib.shake_256 if which == 128 else hashlib.shake_128)(M2).digest(d // 8), which=384 - which, len=l + 1, d=d, after='the other SHAKE with the same d')
        if d in (224, 256, 384, 512):
            ctx.eq('sha3==hashlib', call(lambda: SHA3(d)(M2)), hashlib.new('sha3_%d' % d, M2).digest(), n=d, after='SHAKE with d equal to the digest size')
        got3 = call(SHAKE128 if which == 128 else SHAKE256, M2, d)
        ctx.eq('shake==hashlib', got3, (hashlib.shake_128 if which == 128 else hashlib.shake_256)(M2).digest(d // 8), which=which, len=l + 1, d=d, after='both SHAKEs with the same d')
    elif k == 'singleton':
        import crysp.keccak as KM
        n, l, L = case['n'], case['len'], case['L']
        M = rng.randbytes(l)
        ctx.cls(('singleton', n, l, L is not None))
        r = 1600 - 2 * n
        LL = 8 * l if L is None else L
        want = rk.bits2bytes(rk.sponge(1600, r, rk.bytes2bits_nist(M, LL), n))
        h = getattr(KM, 'keccak_%d' % n)
        got = call(lambda: h(M) if L is None else h(M, bitlen=L))
        ctx.eq('singleton==reference', got, want, n=n, len=l, L=L, M=M)

def classify(case, fail):
    return None
