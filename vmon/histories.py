"""Object-history workloads per property: what each check does to objects beyond 'fresh object, one call'.
Shown in the evidence files (rule) and in DESIGN.md section 16.  Kept next to the class rules in vmon/props."""
HIST = {
 'C01': "second call on the same object; batches of messages on one object; sibling objects of different algorithms/versions used alternately and mid-stream; streaming state preset near 2^32/2^64 bit-counter carries; explicit L=0 and surplus bytes; refused calls followed by a valid one",
 'C02': "enc after dec and dec after enc on the same object; sibling families alive together (AES zero-extended keys, zero keys, mixed sizes, Threefish sizes, Serpent key lengths and zero-extended keys, DES/TDEA forms, all ciphers), decryption first; DES re-keyed through its public K attribute; parity-only key differences",
 'C03': "round trips after refused calls, by a second equally keyed object, on a re-keyed DES object, on an AES object with a reduced Nr; sibling families with whole round trips in random global order and split round trips (other family members used between enc and dec)",
 'C04': "one object over many messages; output lengths changed between calls; duplex sequences; the module's shared SHA3/SHAKE singletons in random order; sibling sponges of different rates; calls after a refused call (perturbation only); explicit L=0",
 'C05': "second message on the same mode object; decryption by a second object; sibling modes over differently keyed ciphers sharing nothing; CTR with the same IV on two objects and counter re-setup; counters that wrap inside the run",
 'C06': "second message on the same object, keystream continuation; sibling ciphers of different key size/rounds/nonce in random order; core hash on a keyed object then the stream; RC4 every split into pieces; start blocks preset through hook H1",
 'C07': "the same source list/bytes used twice; reload of an existing vector; big and boundary sizes; every conversion on every enumerated vector; in-place bit assignment through b[i]",
 'C08': "mutation histories of 1..12 in-place steps against the (value,size) model after every step; result aliasing (mutating a result must not change an operand); self-assignment b[i:j]=b; operands checked unchanged",
 'C09': "iterator protocols: one-shot, continuation over several buffers, interleaved iterators of two padders, lazily consumed iterators, calls after the final block, refused partial blocks and bit lengths then a valid call, preset counters, remove() after preset, explicit L=0",
 'C10': "(the property itself is about histories: see the class rule)",
 'C11': "sibling BLAKE/BLAKE2 objects with different salts/parameters in random order; preset counters crossing the low word; keyed and unkeyed objects alternating; short salt/personalization (zero-padded); explicit L=0",
 'C12': "sibling Skein/UBI objects of different Nb/No/key in random order; configuration and key stages recorded per object; tree hashing after sequential hashing on the same object",
 'C13': "MAC of a second message on the same object; re-keying; two MAC objects sharing one key; a hash object that was used before being handed to HMAC; sibling MACs over different hashes; the caller's key buffer wiped after construction",
 'C14': "every cut-point multiset; interleaved streams on two objects; an object that already produced a digest; abandoned streams followed by a one-shot on the same object; refused non-final and final pieces followed by the real piece; objects without initstate",
 'C15': "table reuse across polynomials and widths in random order; forged positions at every offset; all-ones / all-zero sweeps",
 'C16': "in-place assignment histories against the list model; negative entries; values given as Bits (also wider than the ring: reduced); positions given as any iterable; slices overhanging the end read zeros; both operand orders",
 'C17': "sibling MD6 objects with different d/L/key/rounds in random order; round-count histories on one object; round counts >= 256; keyed after unkeyed",
 'C18': "several networks generated in one process, each checked after the others were built; a live object whose table set is replaced by another key's; parity-only key pairs must give identical behaviour",
 'C19': "sibling TLSH configurations in random order; streamed update vs one-shot; reload/serialize round trips; Nilsimsa every length 0..80 and reuse of one object",
 'C20': "each call repeated on the same arguments; generators consumed lazily, interleaved and abandoned; arguments checked unchanged",
}
