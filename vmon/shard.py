"""One worker shard: runs its slice of a property's cases on the real crysp code under the
monitors and writes what it observed to a JSON file.  Started by main.py as
    python -B -m vmon.shard <ID> <tier> <seed> <shard> <nshards> <san:0|1> <stride> <outfile>
"""
import importlib, json, os, sys, time

def main(argv):
    pid, tier, seed, shard, nshards, san, stride, out = argv[:8]
    seed, shard, nshards, san, stride = int(seed), int(shard), int(nshards), int(san), int(stride)
    from vmon import core, sanitize
    t0 = time.time()
    import crysp
    mod = importlib.import_module('vmon.props.' + pid.lower())
    ctx = core.Ctx(tier, seed, shard)
    ctx.classify = getattr(mod, 'classify', None)
    ctx.shardinfo = {'tier': tier, 'seed': seed, 'shard': shard, 'nshards': nshards, 'san': san, 'stride': stride}
    res = {'shard': shard, 'san': san, 'crysp_path': os.path.dirname(crysp.__file__), 'status': 'ok'}
    # oracle self-test first: a broken oracle makes the run inconclusive, never a violation
    try:
        if hasattr(mod, 'selftest') and shard == 0 and not san:
            res['selftest'] = mod.selftest() or 'ok'
    except core.CaseTimeout:
        raise
    except BaseException as e:
        res['status'] = 'selftest-failed'
        res['selftest'] = '%s: %s' % (type(e).__name__, e)
        json.dump(res, open(out, 'w'))
        return 0
    sanitize.import_all()
    if san:
        sanitize.install_invariants()
    if not san:
        sanitize.start_coverage()
    cpu_budget = getattr(mod, 'CASE_CPU_S', 120.0) * (20 if san else 1)
    from vmon.runner import Runner
    R = Runner(mod, ctx, pid, seed, san=bool(san), cpu_budget=cpu_budget)
    rng = core.rng_for(seed, pid, 'gen')
    n = 0
    for i, case in enumerate(mod.cases(tier, rng)):
        if san:
            # sanitizer shards re-execute a 1/stride sample of the cases, split among themselves
            if (i % stride) != 0 or ((i // stride) % nshards) != shard:
                continue
        else:
            if i % nshards != shard:
                continue
        n += 1
        case = dict(case, _i=i)
        ctx.cases += 1
        if n in (1, 40, 160, 640, 2560, 10240):
            ctx.samples.append(case)
        R.step(case)
    R.finish()
    if san:
        ctx.mon['S1-payload-invariant'] += sanitize.S1_COUNT['bits'] + sanitize.S1_COUNT['poly']
        res['s1'] = dict(sanitize.S1_COUNT)
    else:
        sanitize.stop_coverage()
        anchors = getattr(mod, 'ANCHORS', [])
        res['anchors'] = sanitize.coverage_report(anchors)
        res['files_executed'] = sanitize.files_executed()
        if shard == 0:
            res['anchor_lines'] = sanitize.anchor_total_lines(anchors)
    res.update(ctx.dump())
    res['wall_s'] = time.time() - t0
    tmp = out + '.tmp'
    json.dump(res, open(tmp, 'w'))
    os.replace(tmp, out)
    return 0

if __name__ == '__main__':
    sys.exit(main(sys.argv[1:]))
