"""S7: the repository's own test suite as a second workload, run with the sanitizer layer on.
    pytest -p vmon.pytest_plugin tests     (VMON_S7_OUT=<json file>)
S1 invariants are installed in place before collection; S3 fingerprints crysp's shared state before the
session and after every test; the outcome is written as JSON for the parent check."""
import json, os
from vmon import sanitize

_state = {'base': None, 'changes': [], 'tests': 0, 'failed': []}

def pytest_configure(config):
    sanitize.import_all()
    sanitize.install_invariants()
    _state['base'] = sanitize.global_state()

def pytest_runtest_teardown(item, nextitem):
    _state['tests'] += 1
    now = sanitize.global_state()
    ch = sanitize.diff_state(_state['base'], now)
    if ch:
        _state['changes'].append({'test': item.nodeid, 'changed': ch})
        _state['base'] = now

def pytest_runtest_logreport(report):
    if report.when == 'call' and report.failed:
        _state['failed'].append(report.nodeid)

def pytest_sessionfinish(session, exitstatus):
    out = os.environ.get('VMON_S7_OUT')
    res = {'tests': _state['tests'], 'failed': _state['failed'], 's1_evaluations': dict(sanitize.S1_COUNT),
           's1_failures': sanitize.drain_s1(), 's3_changes': _state['changes'], 'exitstatus': int(exitstatus)}
    if out:
        json.dump(res, open(out, 'w'))
    print('\nvmon S7: %d tests, S1 evaluations %s, S1 failures %d, S3 changes %d'
          % (res['tests'], res['s1_evaluations'], len(res['s1_failures']), len(res['s3_changes'])))
