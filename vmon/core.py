"""Shared monitor plumbing: the per-shard context (event log, counters, class sets),
the call wrapper that turns exceptions into observable outcomes, data patterns and
the CPU-time watchdog."""
import collections, json, random, signal, time, traceback

class CaseTimeout(BaseException):
    """raised by the per-case CPU-time watchdog (BaseException so that crysp's own
    `except Exception`/`except AttributeError` handlers cannot swallow it)"""

class Exc(object):
    """observable outcome 'the call raised': compared by exception type name only"""
    __slots__ = ('name', 'msg', 'mro')
    def __init__(self, e):
        self.name = type(e).__name__
        self.msg = str(e)[:120]
        self.mro = tuple(c.__name__ for c in type(e).__mro__)
    @classmethod
    def named(cls, name, msg=''):
        e = cls.__new__(cls); e.name = name; e.msg = msg; e.mro = (name,)
        return e
    def __eq__(self, o):
        return isinstance(o, Exc) and o.name == self.name
    def __ne__(self, o):
        return not self.__eq__(o)
    def __hash__(self):
        return hash(self.name)
    def __repr__(self):
        return 'EXC:%s' % self.name

def call(f, *a, **k):
    """run f on the real code; return its value or an Exc outcome"""
    try:
        return f(*a, **k)
    except CaseTimeout:
        raise
    except Exception as e:          # noqa: the exception *is* the observation
        return Exc(e)

def is_exc(x, *names):
    """x is an exception outcome (of one of the named classes or a subclass of one)"""
    return isinstance(x, Exc) and (not names or any(n in x.mro for n in names))

def show(x, limit=200):
    """JSON-able short rendering of an observed value"""
    if isinstance(x, (bytes, bytearray)):
        h = bytes(x).hex()
        return h if len(h) <= limit else h[:limit] + '…(%d bytes)' % len(x)
    if isinstance(x, Exc):
        return 'EXC:%s(%s)' % (x.name, x.msg)
    if isinstance(x, (list, tuple)):
        r = [show(y, 60) for y in x[:24]]
        if len(x) > 24:
            r.append('…(%d items)' % len(x))
        return r
    if isinstance(x, dict):
        return {str(k): show(v, 60) for k, v in list(x.items())[:24]}
    if isinstance(x, (int, float, str, bool)) or x is None:
        if isinstance(x, int) and not isinstance(x, bool) and abs(x) > 1 << 64:
            return hex(x)
        return x
    return repr(x)[:limit]


class Ctx(object):
    """what one shard observed"""
    MAXFAIL = 400
    def __init__(self, tier, seed, shard=0):
        self.tier = tier
        self.seed = seed
        self.shard = shard
        self.mon = collections.Counter()       # monitor -> evaluations
        self.monfail = collections.Counter()   # monitor -> failing evaluations
        self.classes = set()                   # distinct non-trivial class keys exercised
        self.states = collections.defaultdict(set)   # named state sets (S-box inputs, tweak states, ...)
        self.fails = []                        # witnesses (bounded)
        self.nfails = 0
        self.failkeys = collections.Counter()
        self.cases = 0
        self.samples = []
        self.case = None
        self.exhaustive = collections.Counter()  # sub-domain name -> elements enumerated
        self.notes = collections.Counter()

    # -- the one place where a monitor verdict is recorded ------------------------------
    def check(self, monitor, ok, got=None, want=None, **detail):
        self.mon[monitor] += 1
        if ok:
            return True
        self.monfail[monitor] += 1
        self.nfails += 1
        f = {'monitor': monitor, 'got': show(got), 'want': show(want)}
        if detail:
            f['detail'] = {k: show(v) for k, v in detail.items()}
        self._record(f)
        return False

    def eq(self, monitor, got, want, **detail):
        if isinstance(got, Exc) or isinstance(want, Exc):
            ok = isinstance(got, Exc) and isinstance(want, Exc) and got.name == want.name
        else:
            ok = bool(got == want)
        return self.check(monitor, ok, got, want, **detail)

    def _record(self, f):
        case = self.case
        key = None
        if self.classify is not None:
            try:
                key = self.classify(case, f)
            except Exception:            # a classifier must never hide a witness
                key = None
        f['key'] = key
        kk = key or ('?' + f['monitor'])
        self.failkeys[kk] += 1
        # keep the first few witnesses per key, bounded overall
        if self.failkeys[kk] <= 3 and len(self.fails) < self.MAXFAIL:
            self.fails.append({'case': case, 'fail': f, 'shard': getattr(self, 'shardinfo', None)})

    classify = None

    def cls(self, key, trivial=False):
        if not trivial:
            self.classes.add(key if isinstance(key, str) else '|'.join(map(str, key)))

    def state(self, name, value):
        self.states[name].add(value)

    def dump(self):
        return {
            'shard': self.shard, 'cases': self.cases,
            'mon': dict(self.mon), 'monfail': dict(self.monfail),
            'classes': sorted(self.classes),
            'states': {k: len(v) for k, v in self.states.items()},
            'state_sets': {k: sorted(map(str, v))[:5000] for k, v in self.states.items()},
            'fails': self.fails, 'nfails': self.nfails, 'failkeys': dict(self.failkeys),
            'samples': self.samples, 'exhaustive': dict(self.exhaustive), 'notes': dict(self.notes),
        }


# ---- CPU-time watchdog per case --------------------------------------------------------
def _alarm(signum, frame):
    raise CaseTimeout()

def arm(cpu_seconds):
    signal.signal(signal.SIGVTALRM, _alarm)
    signal.setitimer(signal.ITIMER_VIRTUAL, cpu_seconds)

def disarm():
    signal.setitimer(signal.ITIMER_VIRTUAL, 0)


# ---- data patterns -----------------------------------------------------------------------
PATTERNS = ('rand', 'zero', 'ones', 'walk', 'x80', 'x7f', 'asc', 'xwords')

def pattern(rng, n, kind='rand'):
    """n bytes of the named pattern (deterministic given rng state)"""
    if n <= 0:
        return b''
    if kind == 'rand':
        return rng.randbytes(n)
    if kind == 'zero':
        return bytes(n)
    if kind == 'ones':
        return b'\xff' * n
    if kind == 'walk':
        b = bytearray(n)
        p = rng.randrange(n * 8)
        b[p // 8] = 1 << (p % 8)
        return bytes(b)
    if kind == 'x80':
        return b'\x80' * n
    if kind == 'x7f':
        return b'\x7f' * n
    if kind == 'asc':
        return bytes((i * 7 + 1) & 0xff for i in range(n))
    if kind == 'xwords':
        # 32-bit words drawn from values where carries, rotations and complements coincide
        ws = [b'\xff\xff\xff\xff', b'\0\0\0\0', b'\x0f\x0f\x0f\x0f', b'\xf0\xf0\xf0\xf0', b'\x80\0\0\0', b'\0\0\0\x01', b'\x7f\xff\xff\xff', b'\xff\xff\xff\xfe']
        return b''.join(rng.choice(ws) for _ in range(n // 4 + 1))[:n]
    raise ValueError(kind)

def rng_for(seed, pid, *extra):
    return random.Random('%s:%s:%s' % (seed, pid, ':'.join(map(str, extra))))

def bits_msb(m, L):
    """first L bits of byte string m, bit 0 = MSB of byte 0 (the 'bit stream' reading)"""
    return [(m[i >> 3] >> (7 - (i & 7))) & 1 for i in range(L)]

def bits2bytes_msb(bits):
    out = bytearray((len(bits) + 7) // 8)
    for i, b in enumerate(bits):
        if b:
            out[i >> 3] |= 0x80 >> (i & 7)
    return bytes(out)


# ---- sibling workloads -------------------------------------------------------------------------------
def siblings(ctx, rng, monitor, specs, late=None, **det):
    """Objects of one family with *different* configurations alive at the same time.
    specs: list of (name, constructor, [(label, use(obj) -> observed, expected)]).  All objects are constructed first
    (in random order), then every use of every object is executed in a random global order and compared with its
    expected value.  `late`: optional extra spec constructed half-way (an older object must not notice a newcomer)."""
    order = list(range(len(specs)))
    rng.shuffle(order)
    objs = {}
    log = []
    for i in order:
        name, new, uses = specs[i]
        o = call(new)
        objs[i] = o
        log.append('new ' + name)
    todo = [(i, u) for i in range(len(specs)) for u in range(len(specs[i][2]))]
    rng.shuffle(todo)
    half = len(todo) // 2
    for n, (i, u) in enumerate(todo):
        if late is not None and n == half:
            lname, lnew, luses = late
            lo = call(lnew)
            log.append('new ' + lname)
            for label, use, want in luses:
                got = lo if is_exc(lo) else call(use, lo)
                ctx.eq(monitor, got, want, sibling=lname, use=label, history=list(log[-12:]), **det)
                log.append('%s.%s' % (lname, label))
        name, new, uses = specs[i]
        label, use, want = uses[u]
        o = objs[i]
        got = o if is_exc(o) else call(use, o)
        ctx.eq(monitor, got, want, sibling=name, use=label, history=list(log[-12:]), **det)
        log.append('%s.%s' % (name, label))
    return log


# ---- caller-owned buffers -----------------------------------------------------------------------------
def mutable_arg(ctx, monitor, f, m, want, must_accept=True, **det):
    """f(message) called with a bytearray the caller still owns: the result is the one for bytes(m), also when the very same buffer
    is passed again, and the library leaves the buffer as it was.  `must_accept=False` is for the few entry points that refuse a
    bytearray on the pinned tree (an error there is a refusal and judges nothing); everywhere else a bytearray is a byte string
    like any other and an error instead of the result is a failure."""
    buf = bytearray(m)
    r1 = call(f, buf)
    if not must_accept and is_exc(r1) and not is_exc(want):          # whatever error class the refusal uses
        ctx.notes['bytearray refused by the library (%s)' % monitor] += 1
        return False
    r2 = call(f, buf)
    nb = lambda r: bytes(r) if isinstance(r, (bytes, bytearray)) else r
    ctx.eq(monitor, nb(r1), want, arg='bytearray', **det)
    ctx.eq(monitor, nb(r2), want, arg='the same bytearray passed again', **det)
    ctx.eq(monitor, bytes(buf), bytes(m), arg='caller buffer left unchanged', **det)
    return True


# ---- the process has a past ------------------------------------------------------------------------------
def process_past():
    """Executed once at the start of every odd-numbered worker (and of a replay of one of its cases): the interpreter has already
    used OTHER parts of crysp, unusual configurations first -- SHA-512/t before SHA-256 and BLAKE, SHA-0, small Keccak widths,
    keyed and salted objects, the largest Threefish, TDEA, MD6 in sequential mode.  State that one module leaves behind for
    another (a table cached under too small a key, a shared template) then meets the property's own workload in the other
    order than in the even-numbered workers, which start cold.  Nothing is judged here."""
    def go(f):
        try:
            f()
        except CaseTimeout:
            raise
        except Exception:
            pass
    import crysp.sha as S, crysp.md as MD, crysp.blake as BK, crysp.keccak as KK, crysp.skein as SK, crysp.hmac as HM
    import crysp.aes as A, crysp.des as D, crysp.serpent as SE, crysp.threefish as TF, crysp.salsa20 as SA, crysp.chacha as CH, crysp.rc4 as R4
    import crysp.mode as MO, crysp.padding as PD, crysp.crc as CR, crysp.tlsh as TL, crysp.nilsimsa as NI
    from crysp.bits import Bits
    M = bytes(range(200))
    go(lambda: S.SHA2(512, 256)(M)); go(lambda: S.SHA2(512, 224)(M)); go(lambda: S.SHA2(384)(M)); go(lambda: S.SHA1(0)(M)); go(lambda: S.SHA2(224)(M))
    go(lambda: S.SHA3(512)(M)); go(lambda: S.SHAKE256(M, 72)); go(lambda: KK.Keccak(b=200, r=40, len=160)(M))
    go(lambda: MD.MD6(160, b'key', 0)(M)); go(lambda: MD.MD4()(M))
    go(lambda: BK.Blake(384)(M, 12345)); go(lambda: BK.Blake2(256)(M, salt=b'saltsalt', outlen=7)); go(lambda: BK.Blake(224)(M))
    go(lambda: SK.Skein(1024, 264, key=b'k', nonce=b'n')(M)); go(lambda: SK.Skein(256, 256, Yl=1, Yf=1, Ym=2)(M))
    go(lambda: HM.HMAC(MD.MD5(), M)(b'x'))
    go(lambda: TF.Threefish(bytes(128), bytes(16)).enc(bytes(128))); go(lambda: D.TDEA(b'12345678', b'abcdefgh', b'ABCDEFGH').dec(bytes(8)))
    go(lambda: A.AES(bytes(range(24))).dec(bytes(16))); go(lambda: SE.Serpent(b'k' * 5).enc(bytes(16)))
    go(lambda: SA.Salsa20(Bits(bytes(32), bitorder=1), 8).enc(Bits(bytes(8), bitorder=1), M)); go(lambda: CH.Chacha(Bits(bytes(16), bitorder=1), 4).enc(Bits(bytes(8), bitorder=1), M))
    go(lambda: R4.RC4(b'k').enc(M)); go(lambda: MO.CTS_CBC(D.DES(b'12345678'), bytes(8)).enc(M)); go(lambda: MO.CBC(A.AES(bytes(16)), bytes(16), PD.X923).enc(M))
    go(lambda: CR.crc(M, CR.crc_table(Bits(0x8408, 16)), 0xffff, 0)); go(lambda: TL.TLSH(48, 4, 3)(M + M + M, True)); go(lambda: NI.Nilsimsa(11)(M))
