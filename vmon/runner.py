"""The case loop shared by the worker shards and by the replayer.

S3 (global-state sanitizer) is a *suspicion*, not a verdict: a change of crysp's shared module-level /
class-level / default-argument state does not by itself contradict any property (a correct cache is
allowed).  When a change is seen, the cases this process already executed are re-validated under the new
global state; a case that held before and fails now is the witness (monitor 'S3-revalidation'), and the
evidence names the objects that changed.  Changes without an observable effect are only counted."""
import traceback
from vmon import core, sanitize

REVALIDATE_MAX = 150
BENIGN_AFTER = 2

def _past(ctx):
    sh = getattr(ctx, 'shardinfo', None) or {}
    if sh.get('shard', 0) % 2 == 1:
        core.process_past()
        ctx.notes['worker started after other parts of crysp had been used (process_past)'] += 1

class Runner(object):
    def __init__(self, mod, ctx, pid, seed, san=False, cpu_budget=120.0):
        self.mod, self.ctx, self.pid, self.seed, self.san, self.cpu = mod, ctx, pid, seed, san, cpu_budget
        _past(ctx)                     # odd-numbered workers: other parts of crysp have been used before (core.process_past)
        self.use_s3 = getattr(mod, 'S3', True)
        self.s3_every = getattr(mod, 'S3_EVERY', 25)
        self.base = sanitize.global_state() if self.use_s3 else None
        self.done = []                 # (case, had_failure) of executed cases, most recent last (bounded)
        self.benign = {}               # frozenset(changed names) -> times revalidated without effect
        self.n = 0

    def run_one(self, case, ctx):
        ctx.case = case
        before = ctx.nfails
        crng = core.rng_for(self.seed, self.pid, 'case', case.get('_i', 0))
        core.arm(self.cpu)
        try:
            self.mod.run(case, ctx, crng)
        except core.CaseTimeout:
            ctx.check('no-result', False, got='CPU budget of %.0fs exhausted' % self.cpu)
        except Exception as e:
            tb = traceback.format_exc().splitlines()[-6:]
            ctx.check('monitor-crashed', False, got='%s: %s' % (type(e).__name__, e), where=tb)
        finally:
            core.disarm()
        if self.san:
            for kind, what in sanitize.drain_s1():
                ctx.check('S1-payload-invariant', False, got=what, kind=kind)
        return ctx.nfails > before

    def step(self, case):
        self.n += 1
        failed = self.run_one(case, self.ctx)
        self.done.append((case, failed))
        if len(self.done) > 4 * REVALIDATE_MAX:
            del self.done[:len(self.done) - 2 * REVALIDATE_MAX]
        if self.use_s3 and self.n % self.s3_every == 0:
            self.probe()

    def probe(self, final=False):
        """S3: has crysp's shared state changed since the last probe?"""
        ctx = self.ctx
        now = sanitize.global_state()
        ch = sanitize.diff_state(self.base, now)
        if not ch:
            ctx.mon['S3-global-state'] += 1
            return
        names = frozenset(c.split(' ')[0] for c in ch)
        for c in ch:
            ctx.notes['S3 shared state changed: ' + c] += 1
        if self.benign.get(names, 0) >= BENIGN_AFTER and not final:
            ctx.mon['S3-global-state'] += 1
            self.base = now
            return
        # re-validate what this process already ran, now under the changed global state
        trig = self.done[-1][0] if self.done else {'k': 'start'}
        sub = core.Ctx(ctx.tier, ctx.seed, ctx.shard)
        sub.classify = ctx.classify
        sub.shardinfo = getattr(ctx, 'shardinfo', None)
        newly = None
        for case, had_failed in self.done[-REVALIDATE_MAX:]:
            if had_failed:
                continue
            if self.run_one(case, sub):
                newly = (case, sub.fails[-1]['fail'] if sub.fails else None)
                break
        ctx.case = dict(newly[0] if newly else trig, _upto=trig.get('_i', 0))
        ok = newly is None
        ctx.check('S3-global-state', ok, got={'shared state changed': sorted(ch)[:8], 'case that held before and fails now': newly[0] if newly else None,
                                                 'failing monitor': newly[1] if newly else None},
                  want='no observable effect of the changed shared state on cases that held before')
        if ok:
            self.benign[names] = self.benign.get(names, 0) + 1
        self.base = sanitize.global_state()

    def finish(self):
        if self.use_s3:
            self.probe(final=True)
